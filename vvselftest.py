"""vv selftest - demonstrates that the trace specifications are bound to what the code records.

For every trace specification a recorded trace of the unchanged tree (produced by the registered
checks, or recorded here when absent) is (a) validated as is - it must be accepted - and then
(b) corrupted in one field or shortened by one event, one corruption at a time; every corrupted trace
must be REJECTED by the specification, with the verdict that names the broken rule.  A corruption that
is still accepted means the specification does not constrain that field: the self test fails (exit 1,
no VIOLATION line - this is a defect of the machinery, not of the code under test).

usage: vv selftest [cell] [tess] [nn] [par] [faces] [aux] [session] [tile]      (default: all)
Writes /verif/out/selftest.json.
"""
import copy
import json
import os
import sys
import time

import vvchecks
from vvlib import OUT, ToolError, ensure_dirs, log, run_tlc, write_cfg


def load(path):
    return [json.loads(x) for x in open(path).read().splitlines() if x.strip()]


def store(path, recs):
    with open(path, "w") as f:
        for r in recs:
            f.write(json.dumps(r) + "\n")


def run_spec(module, trace_file, consts=None, xmx="6g"):
    cfg = os.path.join(OUT, "tlc", "selftest_%s.cfg" % os.path.basename(module).replace(".tla", ""))
    write_cfg(cfg, spec="TSpec", constants=consts, invariants=["Consumed"], postcondition="TraceAccepted")
    r = run_tlc(module, cfg, workers=1, dfs=True, env_extra={"VV_TRACE": trace_file}, tags=("VERDICT",), timeout=1200, xmx=xmx)
    if r.violation or not r.ok:
        return None, (r.violation or r.error or "not accepted")
    return [v for _, v in r.cases], None


def need(path, pid, seed=0):
    """A recorded trace of the unchanged tree: reuse the one the registered check left behind, else run it."""
    if not os.path.exists(path) or os.path.getsize(path) == 0:
        log("selftest: %s missing, running check %s (quick) to record it" % (os.path.basename(path), pid))
        rc = vvchecks.run_check(pid, "quick", seed)
        if rc not in (0,):
            raise ToolError("check %s does not pass on this tree (rc %s): self test needs a clean trace" % (pid, rc))
    return path


# ------------------------------------------------------------------------------------------------
# VCellTrace
# ------------------------------------------------------------------------------------------------
def cell_blocks(recs, want=40):
    """case blocks (case ... next case) that contain at least one clip with removed vertices"""
    blocks, cur = [], []
    for r in recs:
        if r["e"] == "case" and cur:
            blocks.append(cur)
            cur = []
        cur.append(r)
    if cur:
        blocks.append(cur)
    good = [b for b in blocks if any(x["e"] == "clip" and x["rem"] for x in b) and any(x["e"] == "term" for x in b)]
    return good[:want]


def cell_verdict_bad(verdicts, expect):
    return [v for v in verdicts if v["verdict"] != "ok" and (expect is None or expect in v["verdict"])]


def cell_corruptions():
    def first(b, pred):
        for k, x in enumerate(b):
            if pred(x):
                return k
        return None

    def neg_shift(b):      # a periodic shift with the wrong sign
        k = first(b, lambda x: x["e"] == "clip" and any(x["s"]))
        if k is None:
            return None
        b[k]["s"] = [-a for a in b[k]["s"]]
        return "candidate"

    def wrong_ngb(b):      # the clip names the cell itself as neighbour
        k = first(b, lambda x: x["e"] == "clip" and not any(x["s"]))
        ci = first(b, lambda x: x["e"] == "cell")
        if k is None or ci is None or k < ci:
            return None
        b[k]["j"] = b[ci]["c"]
        return "candidate is not a fresh candidate"

    def drop_created(b):   # one created vertex missing
        k = first(b, lambda x: x["e"] == "clip" and len(x["new"]) >= 3)
        if k is None:
            return None
        b[k]["new"] = b[k]["new"][1:]
        return "created vertices are not the boundary"

    def rotate_created(b):  # orientation of a created triple flipped
        k = first(b, lambda x: x["e"] == "clip" and len(x["new"]) >= 3)
        if k is None:
            return None
        t = b[k]["new"][0]
        b[k]["new"][0] = [t[1], t[0], t[2]]
        return "created vertices are not the boundary"

    def keep_clipped(b):   # a strictly clipped vertex reported as kept
        k = first(b, lambda x: x["e"] == "clip" and len(x["rem"]) >= 2)
        if k is None:
            return None
        b[k]["rem"] = b[k]["rem"][1:]
        return None        # "removed set differs" or "created vertices..." - any rejection

    def drop_clip(b):      # one clip event removed from the history
        k = first(b, lambda x: x["e"] == "clip" and x["rem"])
        if k is None:
            return None
        del b[k]
        return None

    def early_term(b):     # the builder stops at the first candidate that cut the cell
        k = first(b, lambda x: x["e"] == "clip" and x["rem"])
        if k is None:
            return None
        e = first(b[k:], lambda x: x["e"] == "end")
        cut = b[k]
        b[k:k + e] = [{"e": "term", "j": cut["j"], "s": cut["s"]}]
        return "terminated although a vertex is farther"

    def swap_order(b):     # two candidates at different distances visited in the wrong order
        ks = [k for k, x in enumerate(b) if x["e"] in ("clip",)]
        for a in range(len(ks) - 1):
            if ks[a + 1] == ks[a] + 1 and (b[ks[a]]["j"], b[ks[a]]["s"]) != (b[ks[a + 1]]["j"], b[ks[a + 1]]["s"]):
                b[ks[a]], b[ks[a + 1]] = b[ks[a + 1]], b[ks[a]]
                return None
        return None

    def final_missing(b):  # final vertex list lacks a vertex
        k = first(b, lambda x: x["e"] == "end" and x.get("hasverts") and len(x["verts"]) > 4)
        if k is None:
            return None
        b[k]["verts"] = b[k]["verts"][1:]
        return "final vertex triples differ"

    def incomplete(b):
        k = first(b, lambda x: x["e"] == "end")
        b[k]["complete"] = False
        return "builder did not finish"

    return [("shift sign flipped in a clip event", neg_shift), ("clip names the cell itself", wrong_ngb),
            ("one created vertex dropped", drop_created), ("created triple with flipped orientation", rotate_created),
            ("strictly clipped vertex reported as kept", keep_clipped), ("clip event removed", drop_clip),
            ("builder stops at the first cut", early_term), ("final vertex list lacks a vertex", final_missing),
            ("cell not finished", incomplete)]


def selftest_cell(report):
    src = need(os.path.join(OUT, "C01_trace.ndjson"), "C01")
    blocks = cell_blocks(load(src))
    if not blocks:
        raise ToolError("no usable case blocks in %s" % src)
    consts = dict(Inputs=("<-", "NoInputs"), Ties="any", Order="all")
    base = os.path.join(OUT, "selftest_cell.ndjson")
    store(base, [x for b in blocks for x in b])
    verdicts, err = run_spec("trace/VCellTrace.tla", base, consts)
    ok = verdicts is not None and all(v["verdict"] in ("ok", "discord") for v in verdicts)
    report.append(dict(spec="VCellTrace", corruption="(none: pristine trace)", rejected=not ok, expected_rejection=False,
                       detail=err or "%d cells accepted" % len(verdicts)))
    for name, fn in cell_corruptions():
        applied = None
        for bi, b0 in enumerate(blocks):
            b = copy.deepcopy(b0)
            # the corruption must change something
            before = json.dumps(b)
            expect = fn(b)
            if json.dumps(b) != before:
                applied = (bi, b, expect)
                break
        if applied is None:
            report.append(dict(spec="VCellTrace", corruption=name, rejected=None, expected_rejection=True, detail="not applicable to this trace"))
            continue
        bi, b, expect = applied
        path = os.path.join(OUT, "selftest_cell_c.ndjson")
        store(path, b)
        verdicts, err = run_spec("trace/VCellTrace.tla", path, consts)
        bad = cell_verdict_bad(verdicts, expect) if verdicts is not None else []
        rejected = (verdicts is None) or bool(bad)
        report.append(dict(spec="VCellTrace", corruption=name, rejected=rejected, expected_rejection=True,
                           detail=err or (bad[0]["verdict"] if bad else "ACCEPTED: %s" % [v["verdict"] for v in verdicts])))


# ------------------------------------------------------------------------------------------------
# line-per-run specs (VTessTrace, VNNTrace, VParTrace, VFacesTrace, VAuxTrace)
# ------------------------------------------------------------------------------------------------
def generic_lines(report, spec_name, module, recs, corruptions, is_bad, context=lambda recs, k: [recs[k]], xmx="6g"):
    """recs: list of records; corruptions: (name, fn(rec) -> expected substring or None (any), pick(rec) -> bool)"""
    base = os.path.join(OUT, "selftest_%s.ndjson" % spec_name)
    store(base, recs)
    verdicts, err = run_spec(module, base, xmx=xmx)
    ok = verdicts is not None and not any(is_bad(v, None) for v in verdicts)
    report.append(dict(spec=spec_name, corruption="(none: pristine trace)", rejected=not ok, expected_rejection=False,
                       detail=err or "%d lines accepted" % len(verdicts)))
    for name, fn in corruptions:
        applied = None
        for k in range(len(recs)):
            ctx = copy.deepcopy(context(recs, k))
            before = json.dumps(ctx)
            expect = fn(ctx[-1])
            if json.dumps(ctx) != before:
                applied = (ctx, expect)
                break
        if applied is None:
            report.append(dict(spec=spec_name, corruption=name, rejected=None, expected_rejection=True, detail="not applicable to this trace"))
            continue
        ctx, expect = applied
        path = os.path.join(OUT, "selftest_%s_c.ndjson" % spec_name)
        store(path, ctx)
        verdicts, err = run_spec(module, path, xmx=xmx)
        bad = [v for v in (verdicts or []) if is_bad(v, expect)]
        rejected = verdicts is None or bool(bad)
        detail = err or (json.dumps(bad[0].get("failed", bad[0].get("verdict")))[:160] if bad else "ACCEPTED")
        report.append(dict(spec=spec_name, corruption=name, rejected=rejected, expected_rejection=True, detail=detail))


def failed_has(v, expect):
    f = v.get("failed", [])
    return any((expect is None) or (expect in x) for x in f)


def selftest_tess(report):
    src = os.path.join(OUT, "C12_tess_trace.ndjson")
    need(src, "C12")
    recs = load(src)
    # keep small inputs: full run + its masked runs
    keep = [r for r in recs if r["n"] <= 8][:24]

    def ctx(recs, k):
        # the full run of the same input must precede a masked run
        r = recs[k]
        if r["full"]:
            return [r]
        full = [x for x in recs[:k] if x["full"] and x["id"] == r["id"]]
        return ([full[-1]] if full else []) + [r]

    def off_by_one_offset(r):
        if len(r["direct"]["offs"]) < 2:
            return None
        r["direct"]["offs"][-1] += 1
        return "offsets are not the prefix sums"

    def face_owner(r):
        fs = r["direct"]["faces"]
        for f in fs:
            if f["right"] >= 0 and f["s"] == -1:
                f["left"], f["right"] = f["right"], f["left"]
                return "face list differs"
        return None

    def conn_entry(r):
        for lst in r["direct"]["fidx"]:
            if len(lst) >= 2:
                lst[0], lst[1] = lst[1], lst[0]
                return "per-cell face indices differ"
        return None

    def conn_flat(r):
        if len(r["direct"]["conn"]) < 2:
            return None
        r["direct"]["conn"][0], r["direct"]["conn"][1] = r["direct"]["conn"][1], r["direct"]["conn"][0]
        return None if r["direct"]["conn"][0] == r["direct"]["conn"][1] else "connectivity array is not the concatenation"

    def count(r):
        r["direct"]["cnts"][0] += 1
        return "face_count differs"

    def nbrs(r):
        for lst in r["direct"]["nbrs"]:
            if lst:
                lst.append(lst[0])
                return "neighbour_ids"
        return None

    def integ_tok(r):
        r["integ"]["tok"] = "0" * 16
        return "converted integrator differs bitwise"

    def sym_extra(r):
        if len(r["sym"]) < 1 or len(r["nonsym"]) == len(r["sym"]):
            return None
        r["sym"] = copy.deepcopy(r["nonsym"])
        return "compute_face_integrals_sym is not"

    def vol(r):
        if not all(r["mask"]):
            return None
        r["volq"][0] += 1000
        return "cell measures do not sum"

    def recip_area(r):
        if not all(r["mask"]):
            return None
        for i, ps in enumerate(r["cps"]):
            for p in ps:
                if p["w"] == 0 and p["hv"] and p["aq"] > 100000:
                    p["aq"] += 5000
                    return "no reciprocal face"
        return None

    def recip_normal(r):
        if not all(r["mask"]):
            return None
        for i, ps in enumerate(r["cps"]):
            for p in ps:
                if p["w"] == 0 and p["hv"] and p["aq"] > 100000:
                    p["nq"] = [-x for x in p["nq"]]
                    return "no reciprocal face"
        return None

    def masked_tok(r):
        if r["full"] or not any(r["mask"]):
            return None
        i = r["mask"].index(True)
        r["direct"]["ctok"][i] = "f" * 16
        return "a selected cell differs bitwise"

    def unselected_nonzero(r):
        if r["full"] or all(r["mask"]):
            return None
        i = r["mask"].index(False)
        r["direct"]["czero"][i] = False
        return "an unselected cell does not report zero"

    cor = [("last offset + 1", off_by_one_offset), ("left/right of an unshifted face swapped", face_owner),
           ("two entries of a cell's face list swapped", conn_entry), ("two entries of the flat connectivity array swapped", conn_flat),
           ("face_count + 1", count), ("neighbour listed twice", nbrs), ("integrator-route token changed", integ_tok),
           ("symmetric list = non-symmetric list", sym_extra), ("one quantised volume + 1000 units", vol),
           ("area of one side of a face changed", recip_area), ("normal of one side flipped", recip_normal),
           ("token of a selected cell changed in a masked run", masked_tok), ("unselected cell reports non-zero", unselected_nonzero)]
    generic_lines(report, "VTessTrace", "trace/VTessTrace.tla", keep, cor, failed_has, context=ctx, xmx="8g")


def selftest_nn(report):
    src = need(os.path.join(OUT, "C17_trace.ndjson"), "C17")
    recs = [r for r in load(src) if len(r["gens"]) <= 30 and len(r["seq"]) >= 6][:30]

    def dist2(r, e):
        q = r["gens"][r["qi"]]
        g = r["gens"][e[0]]
        return sum((g[a] + e[1 + a] * r["G"][a] - q[a]) ** 2 for a in range(3))

    def swap(r):
        s = r["seq"]
        for k in range(1, len(s) - 1):
            if dist2(r, s[k]) != dist2(r, s[k + 1]):
                s[k], s[k + 1] = s[k + 1], s[k]
                return "non-decreasing distance"
        return None

    def dup(r):
        r["seq"][2] = list(r["seq"][1])
        return "visited more than once"

    def drop(r):
        if not r["full"]:
            return None
        del r["seq"][len(r["seq"]) // 2]
        return None

    def self_not_first(r):
        r["seq"][0], r["seq"][1] = r["seq"][1], r["seq"][0]
        return "does not start with the generator itself"

    def shift_flag(r):
        for e in r["seq"]:
            if e[4] == 1:
                e[4] = 0
                return "reported as absent"
        r["seq"][1][4] = 1
        return "reported as absent"

    def shift_sign(r):
        if not r["per"]:
            return None
        for e in r["seq"][1:]:
            if any(e[1:4]):
                e[1], e[2], e[3] = -e[1], -e[2], -e[3]
                return None
        return None

    cor = [("two entries at different distances swapped", swap), ("an entry duplicated", dup), ("an entry of a full stream dropped", drop),
           ("self not first", self_not_first), ("shift flag inverted", shift_flag), ("shift sign of one entry flipped", shift_sign)]
    generic_lines(report, "VNNTrace", "trace/VNNTrace.tla", recs, cor, failed_has, xmx="6g")


def selftest_par(report):
    src = need(os.path.join(OUT, "C09_trace.ndjson"), "C09")
    allr = load(src)
    refs = [r for r in allr if r["e"] == "ref" and r["n"] <= 200][:4]
    keys = {r["key"] for r in refs}
    runs = [r for r in allr if r["e"] == "run" and r["key"] in keys and r["traced"] and r["threads"] >= 2][:12]
    recs = refs + runs

    def ctx(recs, k):
        r = recs[k]
        if r["e"] == "ref":
            return [r]
        return [x for x in recs if x["e"] == "ref" and x["key"] == r["key"]] + [r]

    def tok(r):
        if r["e"] != "run":
            return None
        r["tok"] = "0" * len(r["tok"])
        return "differs bitwise"

    def double_claim(r):
        if r["e"] != "run" or not r["tasks"]:
            return None
        s = [t for t in r["tasks"] if t[0] == "s"][0]
        r["tasks"].append(list(s))
        return "claimed twice"

    def wrong_finisher(r):
        if r["e"] != "run":
            return None
        for t in r["tasks"]:
            if t[0] == "e":
                t[2] = t[2] + 1
                return "finished by a worker that had not claimed it"
        return None

    def missing_cell(r):
        if r["e"] != "run" or len(r["tasks"]) < 4:
            return None
        idx = r["tasks"][0][1]
        r["tasks"] = [t for t in r["tasks"] if t[1] != idx]
        return "not every index was built"

    def verdict_bad(v, expect):
        return v["verdict"] != "ok" and (expect is None or expect in v["verdict"])

    cor = [("result token changed", tok), ("an index claimed twice", double_claim), ("cell finished by another worker", wrong_finisher),
           ("one cell never built", missing_cell)]
    generic_lines(report, "VParTrace", "trace/VParTrace.tla", recs, cor, verdict_bad, context=ctx)


def selftest_faces(report):
    src = need(os.path.join(OUT, "C15_poly_trace.ndjson"), "C15")
    recs = [r for r in load(src) if len(json.dumps(r)) < 6000][:30]
    sample = recs[0]
    log("selftest faces: keys of a record: %s" % sorted(sample.keys()))

    def swap_cycle(r):
        for f in r.get("faces", []):
            vs = f.get("vs") or f.get("verts")
            if vs and len(vs) >= 4:
                vs[0], vs[1] = vs[1], vs[0]
                return None
        return None

    def drop_face_vertex(r):
        for f in r.get("faces", []):
            vs = f.get("vs") or f.get("verts")
            if vs and len(vs) >= 4:
                del vs[0]
                return None
        return None

    def wrong_plane(r):
        fs = r.get("faces", [])
        if len(fs) >= 2 and "plane" in fs[0]:
            fs[0]["plane"], fs[1]["plane"] = fs[1]["plane"], fs[0]["plane"]
            return None
        return None

    def reverse_cycle(r):
        for f in r.get("faces", []):
            vs = f.get("vs") or f.get("verts")
            if vs and len(vs) >= 3:
                vs.reverse()
                return None
        return None

    def tet_count(r):
        if "ntetwo" in r:
            r["ntetwo"] += 1
            return "[C14]"
        return None

    def fan_count(r):
        if "ntetwf" in r:
            r["ntetwf"] -= 1
            return "[C14]"
        return None

    def wrong_ngb(r):
        fs = r.get("faces", [])
        if fs:
            fs[0]["ngb"] = fs[0]["ngb"] + 1
            return None
        return None

    cor = [("two consecutive vertices of a face swapped", swap_cycle), ("a face vertex dropped", drop_face_vertex),
           ("planes of two faces exchanged", wrong_plane), ("a face cycle reversed", reverse_cycle), ("tetrahedron count (without faces) + 1", tet_count),
           ("triangle fan count (with faces) - 1", fan_count), ("neighbour accessor of a face off by one", wrong_ngb)]
    generic_lines(report, "VFacesTrace", "trace/VFacesTrace.tla", recs, cor, failed_has, xmx="6g")


def selftest_aux(report):
    src = need(os.path.join(OUT, "C20_knn_trace.ndjson"), "C20")
    recs = [r for r in load(src) if r["k"] >= 2 and len(r["pts"]) <= 25][:20]
    log("selftest aux: keys of a record: %s" % sorted(recs[0].keys()))

    def d2(r, i, j):
        return sum((r["pts"][i][a] - r["pts"][j][a]) ** 2 for a in range(3))

    def lists(r):
        for key in ("nn", "res", "knn"):
            if key in r:
                return r[key]
        return None

    def swap(r):
        ls = lists(r)
        for i, lst in enumerate(ls or []):
            for k in range(len(lst) - 1):
                if d2(r, i, lst[k]) != d2(r, i, lst[k + 1]):
                    lst[k], lst[k + 1] = lst[k + 1], lst[k]
                    return None
        return None

    def farther(r):
        ls = lists(r)
        n = len(r["pts"])
        for i, lst in enumerate(ls or []):
            out = [j for j in range(n) if j != i and j not in lst]
            if out and lst:
                far = max(out, key=lambda j: d2(r, i, j))
                if d2(r, i, far) > d2(r, i, lst[-1]):
                    lst[-1] = far
                    return None
        return None

    def itself(r):
        ls = lists(r)
        if ls and ls[0]:
            ls[0][0] = 0
            return None
        return None

    cor = [("two neighbours at different distances swapped", swap), ("a neighbour replaced by a farther particle", farther),
           ("particle listed as its own neighbour", itself)]
    generic_lines(report, "VAuxTrace", "trace/VAuxTrace.tla", recs, cor, failed_has)


def _run_plain(module, trace_file, invs=("Consumed",), tags=("VERDICT",)):
    cfg = os.path.join(OUT, "tlc", "selftest_%s.cfg" % os.path.basename(module).replace(".tla", ""))
    write_cfg(cfg, spec="TSpec", invariants=list(invs), postcondition="TraceAccepted")
    r = run_tlc(module, cfg, workers=1, dfs=True, env_extra={"VV_TRACE": trace_file}, tags=tags, timeout=1200, xmx="6g")
    if r.violation or not r.ok:
        raise ToolError("%s could not consume %s: %s" % (module, trace_file, r.violation or r.error))
    return [v for t, v in r.cases if t == "VERDICT"]


def selftest_session(report):
    src = need(os.path.join(OUT, "C13_session.ndjson"), "C13")
    recs = load(src)
    # whole sessions only: the first 120 three-dimensional ones and the first 40 others
    sessions, cur = [], []
    for r in recs:
        if r["e"] == "session" and cur:
            sessions.append(cur)
            cur = []
        cur.append(r)
    sessions.append(cur)
    s3 = [x for x in sessions if x[0]["dim3"]][:400]
    s2 = [x for x in sessions if not x[0]["dim3"]][:100]
    base = s3 + s2
    tmp = os.path.join(OUT, "selftest_session.ndjson")

    def run(sess):
        store(tmp, [r for x in sess for r in x])
        return _run_plain("trace/VSessionTrace.tla", tmp, invs=("Consumed", "Summary"), tags=("VERDICT", "SUMMARY"))

    v = run(base)
    report.append(dict(spec="VSessionTrace", corruption="(pristine: %d sessions)" % len(base), rejected=bool(v), expected_rejection=False, detail=v[:1]))

    def twice(x, pred=lambda op: True):
        ops = [r["op"] for r in x[1:]]
        for i in range(len(ops)):
            for j in range(i + 1, len(ops)):
                if ops[i] == ops[j] and ops[i] != "withfaces" and "withfaces" not in ops[i:j] and pred(ops[i]):
                    return j + 1
        return None

    def cor_token(sess):           # the second of two identical calls returns something else
        for x in sess:
            j = twice(x)
            if j:
                x[j]["tok"] = "deadbeef" + x[j]["tok"][8:]
                return "depends on the history"
    def cor_direct(sess):          # direct build differs from the converted integrator (without faces)
        for x in sess:
            ops = [r["op"] for r in x[1:]]
            if "direct" in ops and "convert" in ops and "withfaces" not in ops:
                x[1 + ops.index("direct")]["tok"] = "0123456789abcdef"
                return "depends on the history"
    def cor_cellrt(sess):          # the round trip through the other type-state changes the cell integrals
        for x in sess:
            ops = [r["op"] for r in x[1:]]
            if "cellrt" in ops and "cellint" in ops and "withfaces" not in ops:
                x[1 + ops.index("cellrt")]["tok"] = "0123456789abcdef"
                return "depends on the history"
    def cor_faces_2d(sess):        # with_faces "succeeds" in a 1D / 2D session
        for x in sess:
            if not x[0]["dim3"]:
                x.insert(1, {"e": "call", "op": "withfaces", "tok": "", "panic": False})
                return "type-state does not allow"
    def cor_twice_wf(sess):        # with_faces twice
        for x in sess:
            ops = [r["op"] for r in x[1:]]
            if "withfaces" in ops:
                x.insert(2 + ops.index("withfaces"), {"e": "call", "op": "withfaces", "tok": "", "panic": False})
                return "type-state does not allow"
    def cor_panic(sess):
        sess[3][1]["panic"] = True
        return "panicked"
    for name, fn in [("token of a repeated observation changed", cor_token), ("direct build differs from convert (without faces)", cor_direct),
                     ("cell round trip changes the integrals", cor_cellrt), ("with_faces accepted in a 1D/2D session", cor_faces_2d),
                     ("with_faces called twice", cor_twice_wf), ("a call panics", cor_panic)]:
        sess = copy.deepcopy(base)
        expect = fn(sess)
        if expect is None:
            report.append(dict(spec="VSessionTrace", corruption=name, rejected=None, expected_rejection=True, detail="no applicable session"))
            continue
        v = run(sess)
        hit = [x for x in v if expect in x["what"]]
        report.append(dict(spec="VSessionTrace", corruption=name, rejected=bool(hit), expected_rejection=True, detail=(hit or v)[:1]))


def selftest_tile(report):
    src = os.path.join(OUT, "C02_vol.ndjson")
    if not os.path.exists(src):
        out = vvchecks.Outcome("C02", "quick", 0)
        vvchecks.measure_model(out, "quick", 0, ["R3s", "D1p"], 4, "C02")
    recs = load(src)
    key = lambda r: json.dumps([r["G"], r["dim"], r["per"], r["gens"]])
    groups, cur = [], []
    for r in recs:
        if cur and key(r) != key(cur[0]):
            groups.append(cur)
            cur = []
        cur.append(r)
    groups.append(cur)
    multi = [g for g in groups if len(g[0]["gens"]) >= 2][:60]
    base = multi + [g for g in groups if len(g[0]["gens"]) == 1][:10]
    tmp = os.path.join(OUT, "selftest_tile.ndjson")

    def run(gs):
        store(tmp, [r for g in gs for r in g])
        return [v for v in _run_plain("trace/VTileTrace.tla", tmp) if v["failed"]]

    v = run(base)
    report.append(dict(spec="VTileTrace", corruption="(pristine: %d inputs)" % len(base), rejected=bool(v), expected_rejection=False, detail=v[:1]))

    def cor_residue(gs):
        gs[0][0]["r"] = [(x + 1) % 46000 for x in gs[0][0]["r"]]
        # all lines of that cell must be changed alike, otherwise it is the order-dependence rule that fires
        for r in gs[0][1:]:
            if r["cell"] == gs[0][0]["cell"]:
                r["r"] = list(gs[0][0]["r"])
        return "do not sum"
    def cor_drop(gs):
        c = gs[1][0]["cell"]
        gs[1] = [r for r in gs[1] if r["cell"] != c]
        return "no finished state"
    def cor_order(gs):
        r = copy.deepcopy(gs[2][0])
        r["r"] = [(x + 7) % 46000 for x in r["r"]]
        gs[2].append(r)
        return "depends on the order"
    def cor_face(gs):               # the area vector of one face, seen from one side only
        for g in gs:
            for r in g:
                if r["f"]:
                    r["f"][0]["av"] = [[(x + 1) % 46000 for x in v] for v in r["f"][0]["av"]]
                    return "no mirror face"
    def cor_face_drop(gs):          # a face listed by one cell only
        for g in gs:
            for r in g:
                if len(r["f"]) >= 1 and len(g[0]["gens"]) >= 2:
                    r["f"] = r["f"][1:]
                    return "no mirror face"
    def cor_centroid(gs):
        for g in gs:
            for r in g:
                if r["f"]:
                    r["f"][0]["a1"] = [[(x + 3) % 46000 for x in v] for v in r["f"][0]["a1"]]
                    return "no mirror face"
    for name, fn in [("volume of one cell changed by one unit", cor_residue), ("one cell of an input missing", cor_drop),
                     ("a second finished state of a cell with another volume", cor_order), ("area vector of a face changed on one side", cor_face),
                     ("a face listed by one of its two cells only", cor_face_drop), ("centroid of a face changed on one side", cor_centroid)]:
        gs = copy.deepcopy(base)
        expect = fn(gs)
        v = run(gs)
        hit = [x for x in v if any(expect in f for f in x["failed"])]
        report.append(dict(spec="VTileTrace", corruption=name, rejected=bool(hit), expected_rejection=True, detail=(hit or v)[:1]))


PARTS = {"cell": selftest_cell, "tess": selftest_tess, "nn": selftest_nn, "par": selftest_par, "faces": selftest_faces, "aux": selftest_aux,
         "session": selftest_session, "tile": selftest_tile}


def main(argv):
    ensure_dirs()
    parts = [a for a in argv if a in PARTS] or list(PARTS)
    report = []
    t0 = time.time()
    for p in parts:
        log("selftest: %s" % p)
        PARTS[p](report)
    bad = 0
    for r in report:
        if r["rejected"] is None:
            status = "n/a "
        elif r["rejected"] == r["expected_rejection"]:
            status = "ok  "
        else:
            status = "FAIL"
            bad += 1
        print("%s %-12s %-55s %s" % (status, r["spec"], r["corruption"], ("rejected: " if r["rejected"] else "") + str(r["detail"])[:150]))
    with open(os.path.join(OUT, "selftest.json"), "w") as f:
        json.dump(dict(report=report, wall_s=round(time.time() - t0, 1), failures=bad), f, indent=1)
    print("selftest: %d corruption(s) / pristine trace(s), %d unexpected outcome(s) (%.0fs)" % (len(report), bad, time.time() - t0))
    return 1 if bad else 0
