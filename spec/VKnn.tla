-------------------------------- MODULE VKnn --------------------------------
(***************************************************************************)
(* M-knn: the uniform-grid k-nearest-neighbour search of space.rs           *)
(* (Space::{new, add_parts, knn, get_r_ring}, Cell::{min_distance_squared,   *)
(* min_distance_to_face}) as a state machine on integer inputs.              *)
(*                                                                         *)
(* One behaviour = the search for ONE particle of one particle set:          *)
(*   parts   the particle positions (sequence of integer points inside the   *)
(*           half-open box [0, CD[k] * CW[k]) )                              *)
(*   q       the particle whose neighbours are searched                      *)
(*   r       the current ring (Chebyshev distance in cells from q's cell)     *)
(*   todo    cells of ring r not looked at yet                               *)
(*   heap    the max-heap of at most K candidates, as a set of <<d2, idx>>    *)
(*   pc      "ring" | "done"                                                 *)
(* Steps (one per critical section of the loop in Space::knn):               *)
(*   Visit(c)   take a cell of the ring; skip it iff the heap is full and     *)
(*              its worst entry is STRICTLY closer than the cell             *)
(*              (space.rs:187-192); otherwise offer every particle of the     *)
(*              cell except q itself: push while the heap is not full, else   *)
(*              replace the worst entry iff strictly closer (:204-220)        *)
(*   EndRing    stop iff the heap is full and (dist_to_face + r * min cell    *)
(*              width)^2 is STRICTLY larger than the worst entry (:224-230);  *)
(*              otherwise r + 1                                               *)
(* The code walks a ring in index order; the model takes the cells of a ring  *)
(* in ANY order (the result must not depend on it).                          *)
(*                                                                         *)
(* Invariants: Sound (every heap entry is a real particle at its real         *)
(* distance, never q), RingBound (the quantity the loop stops on is a lower   *)
(* bound of the distance to every cell of every later ring - the fact the     *)
(* termination test needs), CellBound (min_distance_squared is a lower bound   *)
(* of the distance to every particle binned into the cell - the fact the skip  *)
(* needs), Result (at "done" the heap holds K nearest other particles: no     *)
(* particle left out is strictly closer than the worst one kept).             *)
(***************************************************************************)
EXTENDS VGeom, TLC

CONSTANTS CD,        \* <<cx, cy, cz>> number of grid cells per axis
          CW,        \* <<wx, wy, wz>> cell widths (integers; cells need not be cubic)
          Sets,      \* the particle sets to explore: a set of sequences of distinct points
          K,         \* number of neighbours, 0 <= K < n
          StopMode   \* "code": the termination test of the code; "eager": stops one ring early (shows the model notices)

VARIABLES parts, q, r, todo, heap, pc
vars == <<parts, q, r, todo, heap, pc>>

N == Len(parts)
Cells == (0..CD[1]-1) \X (0..CD[2]-1) \X (0..CD[3]-1)
\* binning of add_parts: floor(rel_pos / width * cdim) = floor(x / cw) on integers
CellOf(p) == <<p[1] \div CW[1], p[2] \div CW[2], p[3] \div CW[3]>>
CellLo(c) == <<c[1] * CW[1], c[2] * CW[2], c[3] * CW[3]>>
InCell(c) == {j \in 1..N : CellOf(parts[j]) = c}
Cheb(c, d) == Max2(Max2(Abs(c[1] - d[1]), Abs(c[2] - d[2])), Abs(c[3] - d[3]))
Ring(c, rr) == {d \in Cells : Cheb(c, d) = rr}
\* Cell::closest_loc / min_distance_squared (space.rs:15-33)
Closest(c, x) == [k \in 1..3 |-> LET lo == CellLo(c)[k] IN IF x[k] > lo THEN Min2(x[k], lo + CW[k]) ELSE lo]
MinD2(c, x) == D2(Closest(c, x), x)
\* Cell::min_distance_to_face for a point inside the cell
DistToFace(c, x) == LET lo == CellLo(c)
                    IN SetMin({x[1] - lo[1], lo[1] + CW[1] - x[1], x[2] - lo[2], lo[2] + CW[2] - x[2],
                               x[3] - lo[3], lo[3] + CW[3] - x[3]})
WMin == Min2(Min2(CW[1], CW[2]), CW[3])
X == parts[q]
C0 == CellOf(X)
HMax == SetMax({e[1] : e \in heap})
Worst == CHOOSE e \in heap : e[1] = HMax

Init == /\ parts \in Sets
        /\ q \in 1..Len(parts)
        /\ r = 0
        /\ todo = Ring(CellOf(parts[q]), 0)
        /\ heap = {}
        /\ pc = IF K = 0 THEN "done" ELSE "ring"

\* offer particles js (a sequence) to the heap one after the other
RECURSIVE Offer(_, _)
Offer(h, js) ==
    IF js = <<>> THEN h
    ELSE LET j == Head(js)
             d == D2(X, parts[j])
             h2 == IF j = q THEN h
                   ELSE IF Cardinality(h) < K THEN h \cup {<<d, j>>}
                   ELSE LET m == SetMax({e[1] : e \in h})
                            w == CHOOSE e \in h : e[1] = m
                        IN IF d < m THEN (h \ {w}) \cup {<<d, j>>} ELSE h
         IN Offer(h2, Tail(js))
RECURSIVE SeqOf(_)
SeqOf(S) == IF S = {} THEN <<>> ELSE LET m == SetMin(S) IN <<m>> \o SeqOf(S \ {m})

Visit == /\ pc = "ring" /\ todo # {}
         /\ \E c \in todo :
              /\ todo' = todo \ {c}
              /\ heap' = IF Cardinality(heap) = K /\ HMax < MinD2(c, X) THEN heap
                         ELSE Offer(heap, SeqOf(InCell(c)))
         /\ UNCHANGED <<parts, q, r, pc>>

StopBound(rr) == DistToFace(C0, X) + rr * WMin
EndRing == /\ pc = "ring" /\ todo = {}
           /\ LET b == StopBound(IF StopMode = "eager" THEN r + 1 ELSE r)
              IN IF Cardinality(heap) = K /\ b * b > HMax
                 THEN pc' = "done" /\ UNCHANGED <<r, todo>>
                 ELSE pc' = "ring" /\ r' = r + 1 /\ todo' = Ring(C0, r + 1)
           /\ UNCHANGED <<parts, q, heap>>

Next == Visit \/ EndRing
Spec == Init /\ [][Next]_vars

---------------------------------------------------------------------------
TypeOK == /\ pc \in {"ring", "done"}
          /\ Cardinality(heap) <= K
          \* the search may run through empty rings beyond the grid (get_r_ring returns nothing there) but not for ever:
          \* once every cell has been seen the heap is full (K < n) and the stop bound grows by WMin per ring
          /\ \/ r <= Max2(Max2(CD[1], CD[2]), CD[3])
             \/ (r - 1) * WMin * (r - 1) * WMin <= (CD[1] * CW[1]) * (CD[1] * CW[1]) + (CD[2] * CW[2]) * (CD[2] * CW[2]) + (CD[3] * CW[3]) * (CD[3] * CW[3])
Sound == /\ \A e \in heap : e[2] \in (1..N) \ {q} /\ e[1] = D2(X, parts[e[2]])
         /\ \A e \in heap : \A f \in heap : e[2] = f[2] => e = f
\* every particle of a cell is at least MinD2 away (what the skip relies on)
CellBound == \A c \in Cells : \A j \in InCell(c) : MinD2(c, X) <= D2(X, parts[j])
\* every cell of a later ring is at least StopBound(r) away (what the termination relies on)
RingBound == \A c \in Cells : Cheb(C0, c) > r => StopBound(r) * StopBound(r) <= MinD2(c, X)
\* the definition of "k nearest": nothing left out is strictly closer than the worst entry kept
Result == pc = "done" =>
            /\ Cardinality(heap) = K
            /\ \A j \in (1..N) \ ({q} \cup {e[2] : e \in heap}) : K = 0 \/ D2(X, parts[j]) >= HMax
\* cells already looked at (rings < r, and ring r minus todo) contain no particle that beats the heap
Progress == \A c \in Cells : (Cheb(C0, c) < r \/ (Cheb(C0, c) = r /\ c \notin todo)) =>
               \A j \in InCell(c) \ {q} : <<D2(X, parts[j]), j>> \in heap
                                          \/ (Cardinality(heap) = K /\ D2(X, parts[j]) >= HMax)
=============================================================================
