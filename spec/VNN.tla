-------------------------------- MODULE VNN --------------------------------
(***************************************************************************)
(* M-nn: the candidate stream of the cell builder (rtree_nn.rs):           *)
(* best-first traversal of an r-tree with a min-heap, for periodic inputs  *)
(* over the 3^d shifted copies of the tree at once                          *)
(* (RTreeWrappingNearestNeighbourIter).                                     *)
(*                                                                         *)
(* State: the tree (chosen in Init among hierarchies over the points: a     *)
(* root whose children are leaves or groups of leaves or groups of groups), *)
(* the heap (a set of entries [node, shift, key]) and the emitted           *)
(* sequence.  Pop takes ANY entry of minimal key (BinaryHeap promises no    *)
(* order among equal keys).                                                 *)
(* Keys: leaf j under shift t: |q + t*G - p_j|^2 (wrapping_distance_2 of a  *)
(* Generator); inner node with bounding box [lo, hi]: squared distance of   *)
(* q + t*G to the box (wrapping_distance_2 of an AABB: clamp).  The stream  *)
(* reports (j, -t), the shift being absent iff t = 0 (rtree_nn.rs:29-36).   *)
(***************************************************************************)
EXTENDS VGeom, TLC

CONSTANTS Points,      \* sequence of lattice points (distinct)
          QI,          \* index of the query point
          GW,          \* period <<gx, gy, gz>>
          Dim, Per,
          Trees,       \* set of trees to explore; a tree is a set of nodes, see below
          KeyMode      \* "clamp" (the code) | "wrongsign" (envelopes shifted the wrong way: to show the model notices)

VARIABLES tree, heap, out
vars == <<tree, heap, out>>

N == Len(Points)
Q == Points[QI]
Shifts == IF Per THEN {<<a, b, c>> : a \in {-1, 0, 1}, b \in (IF Dim >= 2 THEN {-1, 0, 1} ELSE {0}),
                                     c \in (IF Dim >= 3 THEN {-1, 0, 1} ELSE {0})}
          ELSE {<<0, 0, 0>>}

\* A tree = [root |-> set of node ids, kids |-> function from inner-node id to set of node ids].
\* Node ids: 1..N are leaves (points); ids > N are inner nodes.
IsLeaf(x) == x <= N
RECURSIVE LeavesUnder(_, _)
LeavesUnder(tr, x) == IF IsLeaf(x) THEN {x} ELSE UNION {LeavesUnder(tr, y) : y \in tr.kids[x]}
BoxLo(tr, x) == [k \in 1..3 |-> SetMin({Points[j][k] : j \in LeavesUnder(tr, x)})]
BoxHi(tr, x) == [k \in 1..3 |-> SetMax({Points[j][k] : j \in LeavesUnder(tr, x)})]
Clamp(v, lo, hi) == IF v < lo THEN lo ELSE IF v > hi THEN hi ELSE v

ShiftedQ(t) == VAdd(Q, VMul(t, GW))
LeafKey(j, t) == D2(ShiftedQ(t), Points[j])
BoxKey(tr, x, t) ==
    LET p == IF KeyMode = "wrongsign" THEN ShiftedQ(VScale(-1, t)) ELSE ShiftedQ(t)
        lo == BoxLo(tr, x)  hi == BoxHi(tr, x)
        c == [k \in 1..3 |-> Clamp(p[k], lo[k], hi[k])]
    IN D2(c, p)
Key(tr, x, t) == IF IsLeaf(x) THEN LeafKey(x, t) ELSE BoxKey(tr, x, t)
Entry(tr, x, t) == [node |-> x, shift |-> t, key |-> Key(tr, x, t)]

Init == /\ tree \in Trees
        /\ heap = {Entry(tree, x, t) : x \in tree.root, t \in Shifts}     \* rtree_nn.rs:92-98
        /\ out = <<>>

MinEntries == {e \in heap : \A f \in heap : e.key <= f.key}

PopParent == \E e \in MinEntries :
    /\ ~IsLeaf(e.node)
    /\ heap' = (heap \ {e}) \cup {Entry(tree, y, e.shift) : y \in tree.kids[e.node]}
    /\ UNCHANGED <<tree, out>>
PopLeaf == \E e \in MinEntries :
    /\ IsLeaf(e.node)
    /\ heap' = heap \ {e}
    /\ out' = Append(out, <<e.node, VScale(-1, e.shift), e.key>>)
    /\ UNCHANGED tree
Next == PopParent \/ PopLeaf
Spec == Init /\ [][Next]_vars
\* The heap determines the future; the order in which equal keys were emitted does not.
HeapView == <<tree, heap, Len(out), IF Len(out) = 0 THEN -1 ELSE out[Len(out)][3]>>

---------------------------------------------------------------------------
\* The fact the pruning needs: the key of an inner node is a lower bound of the key of every leaf below it.
LowerBound == \A e \in heap : ~IsLeaf(e.node) => \A j \in LeavesUnder(tree, e.node) : e.key <= LeafKey(j, e.shift)
Sorted == \A a \in 1..Len(out) : \A b \in 1..Len(out) : a < b => out[a][3] <= out[b][3]
NoDup == \A a \in 1..Len(out) : \A b \in 1..Len(out) : a # b => <<out[a][1], out[a][2]>> # <<out[b][1], out[b][2]>>
SelfFirst == Len(out) >= 1 => out[1][1] = QI /\ out[1][2] = <<0, 0, 0>>
\* what has been emitted is exactly a distance-prefix of all candidates
PrefixOfAll == \A j \in 1..N : \A t \in Shifts :
                  (\A a \in 1..Len(out) : <<out[a][1], out[a][2]>> # <<j, VScale(-1, t)>>)
                      => (Len(out) = 0 \/ LeafKey(j, t) >= out[Len(out)][3])
Complete == heap = {} => Len(out) = N * Cardinality(Shifts)
DistanceRight == \A a \in 1..Len(out) : out[a][3] = D2(Q, VAdd(Points[out[a][1]], VMul(out[a][2], GW)))
=============================================================================
