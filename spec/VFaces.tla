------------------------------- MODULE VFaces -------------------------------
(***************************************************************************)
(* M-faces: face extraction and the WithFaces / WithoutFaces type-state of  *)
(* ConvexCell (convex_cell.rs:526-614, 738-793).                            *)
(*                                                                         *)
(* Input: the vertices of a finished cell as a SEQUENCE of plane triples    *)
(* (storage order and rotation as in the code), the number of planes.       *)
(* WithFaces(vs, np) transcribes with_faces: collect, per plane, the         *)
(* vertices whose triple contains it (in storage order), order them by       *)
(* walking from vertex to vertex through the plane that follows the face's   *)
(* plane in the current vertex's triple (sort_face_vertices), drop planes    *)
(* without vertices, lay the lists out contiguously.                        *)
(***************************************************************************)
EXTENDS Integers, Sequences, FiniteSets

PosIn(t, p) == IF t[1] = p THEN 1 ELSE IF t[2] = p THEN 2 ELSE IF t[3] = p THEN 3 ELSE 0     \* Vertex::plane_idx
NextPlane(t, p) == t[(PosIn(t, p) % 3) + 1]                                                  \* dual[(p_idx + 1) % 3]
Contains(t, p) == PosIn(t, p) # 0
SwapS(s, a, b) == IF a = b THEN s ELSE [s EXCEPT ![a] = s[b], ![b] = s[a]]

\* vertices (indices into vs) lying on plane p, in storage order
RECURSIVE OnPlaneFrom(_, _, _)
OnPlaneFrom(vs, p, k) == IF k > Len(vs) THEN <<>>
                         ELSE (IF Contains(vs[k], p) THEN <<k>> ELSE <<>>) \o OnPlaneFrom(vs, p, k + 1)

\* sort_face_vertices (:579-614): idx = list of vertex indices, cur = position being filled (1-based, starts at 2),
\* np_ = the plane through which the next vertex is reached.  Returns the ordered list, or <<-1>> if the walk gets stuck
\* ("There always must be a next vertex connected to the current one!").
RECURSIVE FindNext(_, _, _, _)
FindNext(vs, idx, np_, k) == IF k > Len(idx) THEN 0 ELSE IF Contains(vs[idx[k]], np_) THEN k ELSE FindNext(vs, idx, np_, k + 1)
RECURSIVE SortFace(_, _, _, _, _)
SortFace(vs, p, idx, cur, np_) ==
    IF cur > Len(idx) - 1 THEN idx                                    \* while cur_idx < len - 1
    ELSE LET k == FindNext(vs, idx, np_, cur)
         IN IF k = 0 THEN <<-1>>
            ELSE SortFace(vs, p, SwapS(idx, cur, k), cur + 1, NextPlane(vs[idx[k]], p))
FaceOf(vs, p) == LET idx == OnPlaneFrom(vs, p, 1)
                 IN IF idx = <<>> THEN <<>> ELSE SortFace(vs, p, idx, 2, NextPlane(vs[idx[1]], p))

\* with_faces: faces in plane order, planes without vertices dropped, contiguous offsets
RECURSIVE FacesFrom(_, _, _, _)
FacesFrom(vs, np, p, off) ==
    IF p > np THEN <<>>
    ELSE LET f == FaceOf(vs, p)
         IN IF f = <<>> THEN FacesFrom(vs, np, p + 1, off)
            ELSE <<[plane |-> p, verts |-> f, offset |-> off]>> \o FacesFrom(vs, np, p + 1, off + Len(f))
WithFaces(vs, np) == FacesFrom(vs, np, 1, 0)

---------------------------------------------------------------------------
(* properties of an extracted face structure fs over the vertex triples vs *)
SeqSet(s) == {s[k] : k \in 1..Len(s)}
NotStuck(fs) == \A i \in 1..Len(fs) : fs[i].verts # <<-1>>
\* every vertex belongs to exactly the three faces of its three planes
Incidence(vs, fs) ==
    \A v \in 1..Len(vs) :
        {fs[i].plane : i \in {i \in 1..Len(fs) : v \in SeqSet(fs[i].verts)}} = {vs[v][1], vs[v][2], vs[v][3]}
\* the vertex list of a face is a simple cycle ...
Simple(fs) == \A i \in 1..Len(fs) : Cardinality(SeqSet(fs[i].verts)) = Len(fs[i].verts) /\ Len(fs[i].verts) >= 3
\* ... in which consecutive vertices (cyclically) share exactly two planes: the face's and the edge's other face
SharedPlanes(t1, t2) == {t1[1], t1[2], t1[3]} \cap {t2[1], t2[2], t2[3]}
EdgesOK(vs, fs) ==
    \A i \in 1..Len(fs) : LET f == fs[i].verts  n == Len(f)
                          IN \A k \in 1..n : LET a == vs[f[k]]  b == vs[f[(k % n) + 1]]
                                             IN Cardinality(SharedPlanes(a, b)) = 2 /\ fs[i].plane \in SharedPlanes(a, b)
\* the walk follows the orientation of the triples: from a vertex with triple (.., p, x, ..) the next vertex lies on x
DirectionOK(vs, fs) ==
    \A i \in 1..Len(fs) : LET f == fs[i].verts  n == Len(f)
                          IN \A k \in 1..n-1 : Contains(vs[f[k + 1]], NextPlane(vs[f[k]], fs[i].plane))
OffsetsOK(fs) == \A i \in 1..Len(fs) : fs[i].offset = (IF i = 1 THEN 0 ELSE fs[i-1].offset + Len(fs[i-1].verts))
PlaneOrder(fs) == \A i \in 1..Len(fs) - 1 : fs[i].plane < fs[i+1].plane
\* V - E + F = 2 with E = half the sum of the face sizes
RECURSIVE SumLen(_, _)
SumLen(fs, i) == IF i > Len(fs) THEN 0 ELSE Len(fs[i].verts) + SumLen(fs, i + 1)
EulerF(vs, fs) == 2 * Len(vs) - SumLen(fs, 1) + 2 * Len(fs) = 4
AllFaceProps(vs, fs) == NotStuck(fs) /\ Incidence(vs, fs) /\ Simple(fs) /\ EdgesOK(vs, fs) /\ DirectionOK(vs, fs)
                        /\ OffsetsOK(fs) /\ PlaneOrder(fs) /\ EulerF(vs, fs)

\* two vertex lists describe the same oriented cycle (rotation allowed)
SameCycle(a, b) == /\ Len(a) = Len(b)
                   /\ \E d \in 0..Len(a) - 1 : \A k \in 1..Len(a) : a[k] = b[((k + d - 1) % Len(b)) + 1]

---------------------------------------------------------------------------
(* the type-state machine: which calls are possible in which state *)
TypeStates == {"WithoutFaces", "WithFaces", "Rejected"}
CanCall(st, call) ==
    CASE call = "with_faces"    -> st = "WithoutFaces"
      [] call = "discard_faces" -> st = "WithFaces"
      [] call \in {"face_count", "face_vertices", "face_vertex_count", "clipping_plane", "neighbour", "shift"} -> st = "WithFaces"
      [] call \in {"compute_cell_integral", "compute_face_integrals", "vertices", "clipping_planes"} -> st \in {"WithoutFaces", "WithFaces"}
      [] OTHER -> FALSE
AfterCall(st, call, dim) ==
    CASE call = "with_faces"    -> IF dim = 3 THEN "WithFaces" ELSE "Rejected"      \* assert_eq!(dimensionality, ThreeD)
      [] call = "discard_faces" -> "WithoutFaces"
      [] OTHER -> st
\* face data is present exactly in the state in which the unchecked accessors can be called
FaceDataPresent(st) == st = "WithFaces"
=============================================================================
