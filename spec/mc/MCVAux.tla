------------------------------- MODULE MCVAux -------------------------------
(* Enumerates small lattice point sets, computes the exact minimal enclosing sphere by brute force, checks that it is *)
(* well defined (exists, contains all points, is unique as a sphere) and prints it for replay into Welzl / Epos6.     *)
EXTENDS VAux, FiniteSetsExt, Json

CONSTANTS GX, GY, GZ, KMin, KMax, Emit
Grid == {<<x, y, z>> : x \in 0..GX, y \in 0..GY, z \in 0..GZ}
VARIABLES ps
\* subsets are built up point by point in increasing key order so that TLC explores them in parallel
PK(p) == 100 * p[1] + 10 * p[2] + p[3]
Init == ps \in {{p} : p \in Grid}
Next == /\ Cardinality(ps) < KMax
        /\ \E p \in Grid : (\A q \in ps : PK(p) > PK(q)) /\ ps' = ps \cup {p}
Spec == Init /\ [][Next]_ps
Big == Cardinality(ps) >= 2 /\ Cardinality(ps) >= KMin

Exists == Big => Enclosing(ps) # {}
\* all minimal candidates are the same sphere (same centre)
Unique == Big => \A s \in Minimals(ps) : \A t \in Minimals(ps) : s.c = t.c
Contains == Big => \A p \in ps : InSphereC(MinSphere(ps).c, MinSphere(ps).a, p)
\* Welzl's recursion, for EVERY order of the points: never reaches a degenerate boundary set (three collinear / four coplanar
\* points: the code would divide by zero) and returns the minimal enclosing sphere
WelzlNeverDegenerate == \A q \in PermsOf(ps) : Welzl(q, <<>>).k # "bad"
WelzlMinimal == Big => \A q \in PermsOf(ps) : LET w == Welzl(q, <<>>) IN w.k = "s" /\ w.c = MinSphere(ps).c
                                                                         /\ N2(Num(w.c, w.a)) * MinSphere(ps).c[4] * MinSphere(ps).c[4]
                                                                            = N2(Num(MinSphere(ps).c, MinSphere(ps).a)) * w.c[4] * w.c[4]
WelzlSingle == Cardinality(ps) = 1 => \A q \in PermsOf(ps) : Welzl(q, <<>>) = [k |-> "s", c |-> HPoint(q[1]), a |-> q[1]]
EmitSphere == (Emit /\ Big) =>
    PrintT(<<"SPHERE", ToJson([pts |-> ps, c |-> MinSphere(ps).c,
                               r2 |-> <<N2(Num(MinSphere(ps).c, MinSphere(ps).a)), MinSphere(ps).c[4] * MinSphere(ps).c[4]>>])>>)
=============================================================================
