---------------------------- MODULE MCVCellImpl ----------------------------
(* Model-checking wrapper: the lattice inputs of MCVCell, the machine of VCellImpl. *)
EXTENDS VCellImpl, MCVCell
EmitClips == (Emit /\ pc = "visit") => \A cs \in ClipCases : PrintT(<<"CLIP", ToJson(cs)>>)
=============================================================================
