------------------------------ MODULE MCVTess ------------------------------
(* Model of the parallel assembly (Voronoi::build_voronoi_cells + finalize) *)
(* for model checking: T workers claim cell indices in any order, each      *)
(* writes only its own result slot; results are collected by index          *)
(* (CollectMode = "indexed", what rayon's indexed collect does) or - to     *)
(* show that the model can tell the difference - in completion order        *)
(* (CollectMode = "completion").                                            *)
EXTENDS VTess, SequencesExt

CONSTANTS N, T, K, InputMode, CollectMode, HasMask, WallsFixed

VARIABLES mask, cps, claimed, running, slot, order, pc, faces, conn, offs
vars == <<mask, cps, claimed, running, slot, order, pc, faces, conn, offs>>

Cells == 1..N
SA == 12        \* a non-zero shift code and its opposite
SB == 14

\* descriptors
Ngb(j, s, hv, ok) == [w |-> 0, j |-> j, s |-> s, hv |-> hv, ok |-> ok]
WallD(hv, ok) == [w |-> 1, j |-> 0, s |-> NoShift, hv |-> hv, ok |-> ok]
Descs == {Ngb(j, s, hv, TRUE) : j \in Cells, s \in {NoShift, SA}, hv \in BOOLEAN}
         \cup {Ngb(1, NoShift, TRUE, FALSE), WallD(TRUE, TRUE), WallD(TRUE, FALSE)}
Lists == UNION {[1..k -> Descs] : k \in 0..K}
\* a cell never lists itself without a shift
ListOK(i, l) == \A k \in 1..Len(l) : ~(l[k].w = 0 /\ l[k].j = i /\ l[k].s = NoShift)

ArbitraryInputs == {cp \in [Cells -> Lists] : \A i \in Cells : ListOK(i, cp[i])}

\* reciprocal inputs: symmetric relation, self-images in opposite pairs
Pairs == {<<i, j>> \in Cells \X Cells : i < j}
PairChoice == [Pairs -> SUBSET {NoShift, SA}]
SelfChoice == [Cells -> BOOLEAN]
WallChoice == IF WallsFixed THEN {[i \in Cells |-> TRUE]} ELSE [Cells -> BOOLEAN]
DKey(d) == 1000 * d.w + 100 * d.j + (d.s + 1)
DSeq(S) == SetToSortSeq(S, LAMBDA a, b : DKey(a) < DKey(b))
RecList(i, ch, sc, wc) ==
    LET up   == {Ngb(p[2], s, TRUE, TRUE) : p \in {q \in Pairs : q[1] = i}, s \in {NoShift, SA}}
        upok == {d \in up : d.s \in ch[<<i, d.j>>]}
        dn   == {Ngb(p[1], NegShift(s), TRUE, TRUE) : p \in {q \in Pairs : q[2] = i}, s \in {NoShift, SA}}
        dnok == {d \in dn : NegShift(d.s) \in ch[<<d.j, i>>]}
        self == IF sc[i] THEN {Ngb(i, SA, TRUE, TRUE), Ngb(i, SB, TRUE, TRUE)} ELSE {}
        wl   == IF wc[i] THEN {WallD(TRUE, TRUE)} ELSE {}
    IN DSeq(upok \cup dnok \cup self \cup wl)
ReciprocalInputs == {[i \in Cells |-> RecList(i, ch, sc, wc)] : ch \in PairChoice, sc \in SelfChoice, wc \in WallChoice}

\* one fixed reciprocal input (a ring with walls and one self-image pair): for exploring schedules with more cells
RingInputs == {[i \in Cells |-> DSeq({Ngb((i % N) + 1, NoShift, TRUE, TRUE), Ngb(((i + N - 2) % N) + 1, NoShift, TRUE, TRUE),
                                       WallD(TRUE, TRUE)} \cup (IF i = 1 THEN {Ngb(1, SA, TRUE, TRUE), Ngb(1, SB, TRUE, TRUE)} ELSE {}))]}

Inputs == IF InputMode = "arbitrary" THEN ArbitraryInputs ELSE IF InputMode = "ring" THEN RingInputs ELSE ReciprocalInputs

Init ==
    /\ mask \in (IF HasMask THEN [Cells -> BOOLEAN] ELSE {[i \in Cells |-> TRUE]})
    /\ cps \in Inputs
    /\ claimed = {} /\ running = [t \in 1..T |-> 0]
    /\ slot = [i \in Cells |-> <<>>]
    /\ order = <<>>
    /\ pc = "build" /\ faces = <<>> /\ conn = <<>> /\ offs = <<>>

\* a worker picks up any index not yet claimed (work stealing: no order is promised)
Claim(t, i) ==
    /\ pc = "build" /\ ClaimPre(claimed, running, t, i)
    /\ claimed' = claimed \cup {i}
    /\ running' = [running EXCEPT ![t] = i]
    /\ UNCHANGED <<mask, cps, slot, order, pc, faces, conn, offs>>

\* ... and writes the result into its own slot only; the value is a pure function of (i, shared input)
Finish(t) ==
    /\ pc = "build" /\ FinishPre(running, t, running[t])
    /\ LET i == running[t]
       IN /\ slot' = [slot EXCEPT ![i] = IF mask[i] THEN CellFaces(i, cps[i], mask, HasMask) ELSE <<>>]
          /\ order' = Append(order, i)
    /\ running' = [running EXCEPT ![t] = 0]
    /\ UNCHANGED <<mask, cps, claimed, pc, faces, conn, offs>>

\* flatten!(faces) once every slot is written
DoFlatten ==
    /\ pc = "build" /\ claimed = Cells /\ \A t \in 1..T : running[t] = 0
    /\ faces' = IF CollectMode = "indexed" THEN Flatten(slot)
                ELSE Flatten([k \in 1..N |-> slot[order[k]]])
    /\ pc' = "link"
    /\ UNCHANGED <<mask, cps, claimed, running, slot, order, conn, offs>>

DoLink ==
    /\ pc = "link"
    /\ conn' = LinkAll(N, faces)
    /\ offs' = Offsets(LinkAll(N, faces))
    /\ pc' = "done"
    /\ UNCHANGED <<mask, cps, claimed, running, slot, order, faces>>

Next == (\E t \in 1..T : \E i \in Cells : Claim(t, i)) \/ (\E t \in 1..T : Finish(t)) \/ DoFlatten \/ DoLink
Spec == Init /\ [][Next]_vars

---------------------------------------------------------------------------
SharedImmutable == [][mask' = mask /\ cps' = cps]_vars
SlotOwnership == [][\A i \in Cells : slot'[i] # slot[i] => \E t \in 1..T : running[t] = i]_vars

Expected == Flatten([i \in Cells |-> IF mask[i] THEN CellFaces(i, cps[i], mask, HasMask) ELSE <<>>])
Deterministic == pc \in {"link", "done"} => faces = Expected

Done == pc = "done"
PrefixSums == Done => /\ \A i \in Cells : offs[i] = (IF i = 1 THEN 0 ELSE offs[i-1] + Len(conn[i-1]))
                      /\ offs[N] + Len(conn[N]) = Len(Flatten(conn))
InvListedByLeft == Done => ListedByLeft(faces, conn)
InvListedByRight == Done => ListedByRightIffUnshifted(faces, conn)
InvListedByNoOther == Done => ListedByNoOther(N, faces, conn)
InvNoUnselectedLeft == Done => NoUnselectedLeft(faces, mask)
InvStoredAtMostOnce == (Done /\ InputMode # "arbitrary") => StoredAtMostOnce(faces)
InvStoredOnce == (Done /\ InputMode # "arbitrary") => StoredOnce(N, mask, cps, faces)
InvNeighbourIds == (Done /\ InputMode # "arbitrary") => NeighbourIdsExact(N, faces, conn)
InvReciprocalInput == InputMode # "arbitrary" => Reciprocal(N, mask, cps)
\* partial = restriction: the faces of a selected cell towards selected cells do not depend on the mask's other entries
\* sym = non-sym minus what a constructed lower-index unshifted neighbour already reported
SymIsNonSymMinusTreated ==
    \A i \in Cells : mask[i] =>
        LET ns == NonSym(i, cps[i])  sy == Sym(i, cps[i], mask)
        IN sy = SelectSeq(ns, LAMBDA f : ~(f.w = 0 /\ f.s = NoShift /\ f.right < i /\ mask[f.right]))
\* with a mask the symmetric integrals are exactly the faces stored for the cell
SymEqualsStored == \A i \in Cells : mask[i] => [k \in 1..Len(Sym(i, cps[i], mask)) |-> Sym(i, cps[i], mask)[k].pl]
                                                = [k \in 1..Len(CellFaces(i, cps[i], mask, TRUE)) |-> CellFaces(i, cps[i], mask, TRUE)[k].pl]
=============================================================================
