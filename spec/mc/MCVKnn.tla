------------------------------- MODULE MCVKnn -------------------------------
(* Inputs of the VKnn model: every set of NP particles on the position lattice {0, Step, 2 Step, ...} of the box      *)
(* (as the sequence sorted by key - the search must not depend on particle numbering beyond tie breaking), every     *)
(* query particle.                                                                                                 *)
EXTENDS VKnn, FiniteSetsExt

CONSTANTS NP, Step, Flat, CDx, CDy, CDz, CWx, CWy, CWz
MCCD == <<CDx, CDy, CDz>>
MCCW == <<CWx, CWy, CWz>>
Coords(k) == {Step * i : i \in 0..((CD[k] * CW[k] - 1) \div Step)}
Pos == Coords(1) \X Coords(2) \X (IF Flat THEN {0} ELSE Coords(3))
PKey(p) == 10000 * p[1] + 100 * p[2] + p[3]
RECURSIVE SortedSeq(_)
SortedSeq(S) == IF S = {} THEN <<>> ELSE LET m == CHOOSE x \in S : \A y \in S : PKey(x) <= PKey(y) IN <<m>> \o SortedSeq(S \ {m})
MCSets == {SortedSeq(S) : S \in kSubset(NP, Pos)}
=============================================================================
