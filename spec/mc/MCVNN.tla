------------------------------- MODULE MCVNN -------------------------------
(* Inputs of the VNN model: every query point of a point set, every tree     *)
(* over it among: flat root; root of groups (all set partitions into <= 3    *)
(* groups); root of a group of groups (3 levels).                            *)
EXTENDS VNN, FiniteSetsExt

CONSTANTS PSet      \* which point set (string)

PointSets ==
    [ line4   |-> <<<<0,0,0>>, <<1,0,0>>, <<2,0,0>>, <<3,0,0>>>>,
      square  |-> <<<<0,0,0>>, <<1,0,0>>, <<0,1,0>>, <<1,1,0>>>>,
      lshape  |-> <<<<0,0,0>>, <<2,0,0>>, <<0,2,0>>, <<2,2,0>>, <<1,1,0>>>>,
      cube5   |-> <<<<0,0,0>>, <<2,0,0>>, <<0,2,0>>, <<0,0,2>>, <<1,1,1>>>>,
      cube2   |-> <<<<0,0,0>>, <<2,1,3>>>>,
      cube3   |-> <<<<0,0,0>>, <<2,0,1>>, <<1,2,2>>>>,
      cube4   |-> <<<<0,0,0>>, <<2,0,1>>, <<1,2,2>>, <<3,3,0>>>>,
      skew    |-> <<<<0,0,0>>, <<3,1,0>>, <<1,3,0>>, <<2,2,0>>>> ]
MCPoints == PointSets[PSet]
MCGW == <<4, 4, 4>>
NP == Len(MCPoints)

\* partitions of 1..NP into at most 3 non-empty groups (as sets of sets)
Partitions == {P \in UNION {kSubset(k, SUBSET (1..NP) \ {{}}) : k \in 1..3} :
                 /\ UNION P = 1..NP
                 /\ \A a \in P : \A b \in P : a # b => a \cap b = {}}
\* group ids NP+1.. in a fixed order of the groups
GroupSeq(P) == CHOOSE f \in [1..Cardinality(P) -> P] : \A a, b \in 1..Cardinality(P) : a # b => f[a] # f[b]
FlatTree == [root |-> 1..NP, kids |-> [x \in {} |-> {}]]
TwoLevel(P) == LET g == GroupSeq(P)
               IN [root |-> {NP + k : k \in 1..Cardinality(P)}, kids |-> [x \in {NP + k : k \in 1..Cardinality(P)} |-> g[x - NP]]]
\* three levels: the first two groups under one more inner node
ThreeLevel(P) == LET g == GroupSeq(P)  m == Cardinality(P)
                 IN [root |-> {NP + m + 1} \cup {NP + k : k \in 3..m},
                     kids |-> [x \in {NP + k : k \in 1..m + 1} |-> IF x = NP + m + 1 THEN {NP + 1, NP + 2} ELSE g[x - NP]]]
MCTrees == {FlatTree} \cup {TwoLevel(P) : P \in Partitions}
           \cup {ThreeLevel(P) : P \in {R \in Partitions : Cardinality(R) >= 2}}
=============================================================================
