------------------------------ MODULE MCVPred ------------------------------
(* Enumerates every 5-tuple (a,b,c,d,v) over a small grid, built up point by  *)
(* point so that TLC explores the tuples in parallel; checks the predicate's   *)
(* transcription against its definitions and prints replay vectors.            *)
EXTENDS VPred, Json, Sequences

CONSTANTS GridName, EmitMod, Emit

Cube01 == {<<x, y, z>> : x \in {0, 1}, y \in {0, 1}, z \in {0, 1}}
Grids == [ g13 |-> Cube01 \cup {<<2,0,0>>, <<0,2,0>>, <<0,0,2>>, <<2,2,2>>, <<1,1,2>>},
           g9  |-> Cube01 \cup {<<2,1,0>>},
           g27 |-> {<<x, y, z>> : x \in {0, 1, 2}, y \in {0, 1, 2}, z \in {0, 1, 2}},
           g17 |-> Cube01 \cup {<<2,0,0>>, <<0,2,0>>, <<0,0,2>>, <<2,2,2>>, <<1,1,2>>, <<2,1,0>>, <<3,1,1>>, <<1,3,2>>, <<2,2,1>>} ]
Grid == Grids[GridName]

VARIABLES t
Init == t \in {<<p>> : p \in Grid}
Next == /\ Len(t) < 5
        /\ \E p \in Grid : t' = Append(t, p)
Spec == Init /\ [][Next]_t

Full == Len(t) = 5
A == t[1]  B == t[2]  C == t[3]  D == t[4]  V == t[5]

\* independent definition of the determinant: generic Laplace expansion along the first row of the 4x4
\* matrix whose columns are the lifted differences
Minor3(m, r, c) == LET rows == SelectSeq(<<1, 2, 3, 4>>, LAMBDA i : i # r)
                       cols == SelectSeq(<<1, 2, 3, 4>>, LAMBDA j : j # c)
                   IN Det3(<<m[rows[1]][cols[1]], m[rows[1]][cols[2]], m[rows[1]][cols[3]]>>,
                           <<m[rows[2]][cols[1]], m[rows[2]][cols[2]], m[rows[2]][cols[3]]>>,
                           <<m[rows[3]][cols[1]], m[rows[3]][cols[2]], m[rows[3]][cols[3]]>>)
Det4(m) == m[1][1] * Minor3(m, 1, 1) - m[1][2] * Minor3(m, 1, 2) + m[1][3] * Minor3(m, 1, 3) - m[1][4] * Minor3(m, 1, 4)
\* rows = coordinates x, y, z, norm2; columns = b, c, d, v
LiftMatrix == LET b == Lift(B, A)  c == Lift(C, A)  d == Lift(D, A)  v == Lift(V, A)
              IN [i \in 1..4 |-> <<b[i], c[i], d[i], v[i]>>]

\* the transcription computes the determinant ...
CofactorIsDeterminant == Full => CofactorDet(A, B, C, D, V) = Det4(LiftMatrix)
\* ... and its sign is the geometric definition for every non-degenerate tetrahedron
AgreesWithDefinition == (Full /\ Orient(A, B, C, D) # 0) => InSphereCofactor(A, B, C, D, V) = InSphereRef(A, B, C, D, V)
\* first-order transport of co-spherical tuples to +-1 perturbations of scaled copies
CoSpherical == Full /\ Orient(A, B, C, D) # 0 /\ CofactorDet(A, B, C, D, V) = 0
FirstOrderOK == CoSpherical => \A e \in UnitSteps : \A k \in {1, 2, 3} :
                    LET fo == FirstOrder(A, B, C, D, V, e)
                    IN PerturbedRef(A, B, C, D, V, e, k) = Sign(k * fo.L + fo.m4)
\* translation invariance
TranslationInvariant == Full => CofactorDet(A, B, C, D, V) =
                          CofactorDet(VAdd(A, <<3,1,2>>), VAdd(B, <<3,1,2>>), VAdd(C, <<3,1,2>>), VAdd(D, <<3,1,2>>), VAdd(V, <<3,1,2>>))

\* the sign is invariant under SIMILARITY maps of the grid (uniform scale 2, 3 + translation; the determinant scales with k^5) ...
Sim(p, k) == VAdd(VScale(k, p), <<1, 2, 0>>)
SimilarityInvariant == Full => \A k \in {2, 3} :
                          Sign(CofactorDet(Sim(A, k), Sim(B, k), Sim(C, k), Sim(D, k), Sim(V, k))) = Sign(CofactorDet(A, B, C, D, V))
\* ... but NOT under a scaling of one axis alone: NoAnisoInvariance is expected to be VIOLATED (finding F13: the map from positions
\* to the integer grid must use one scale for all used axes, or the predicate decides about an ellipsoid)
Aniso(p) == <<2 * p[1], p[2], p[3]>>
NoAnisoInvariance == (Full /\ Orient(A, B, C, D) # 0) =>
                          Sign(CofactorDet(Aniso(A), Aniso(B), Aniso(C), Aniso(D), Aniso(V))) * Sign(Orient(Aniso(A), Aniso(B), Aniso(C), Aniso(D)))
                          = Sign(CofactorDet(A, B, C, D, V)) * Sign(Orient(A, B, C, D))

Hash == (7 * A[1] + 3 * A[2] + A[3] + 11 * B[1] + 5 * B[2] + 2 * B[3] + 13 * C[1] + C[2] + 17 * C[3]
         + 19 * D[1] + 23 * D[2] + D[3] + 29 * V[1] + 31 * V[2] + 37 * V[3]) % EmitMod
EmitVec == (Emit /\ Full /\ Hash = 0) =>
    PrintT(<<"PRED", ToJson([a |-> A, b |-> B, c |-> C, d |-> D, v |-> V,
                             sign |-> InSphereCofactor(A, B, C, D, V),
                             orient |-> Sign(Orient(A, B, C, D)),
                             fo |-> IF CoSpherical THEN {[e |-> e, L |-> FirstOrder(A, B, C, D, V, e).L, m4 |-> FirstOrder(A, B, C, D, V, e).m4] : e \in UnitSteps}
                                    ELSE {}])>>)
=============================================================================
