------------------------------ MODULE MCVFaces ------------------------------
(* Face extraction (VFaces) checked on every finished cell of the cell machine (3D lattice inputs of MCVCell), *)
(* for several storage orders of the vertex array; orientation and convexity exact on the lattice.            *)
EXTENDS VDecomp, MCVCell

TK(t) == 10000 * t[1] + 100 * t[2] + t[3]
RECURSIVE SortTriples(_)
SortTriples(S) == IF S = {} THEN <<>> ELSE LET m == CHOOSE x \in S : \A y \in S : TK(x) <= TK(y) IN <<m>> \o SortTriples(S \ {m})
RevSeq(s_) == [k \in 1..Len(s_) |-> s_[Len(s_) + 1 - k]]
Rot1(t) == <<t[2], t[3], t[1]>>
StorageOrders == LET s == SortTriples({v.t : v \in verts})
                 IN {s, RevSeq(s), [k \in 1..Len(s) |-> Rot1(s[k])], [k \in 1..Len(s) |-> IF k % 2 = 0 THEN Rot1(Rot1(s[k])) ELSE s[k]]}

PointOfTriple(t) == (CHOOSE v \in verts : v.t = Canon(t)).h
\* direction b - a of two homogeneous points, scaled by a positive factor
Dir(a, b) == VSub(VScale(a[4], HXYZ(b)), VScale(b[4], HXYZ(a)))
\* turning sign of the polygon corner a -> b -> c seen against the inward normal n of its plane
Turn(n, pa, pb, pc_) == Sign(Det3(n, Dir(pa, pb), Dir(pb, pc_)))
FaceTurns(vs, f) == LET n == planes[f.plane].pl.n  m == Len(f.verts)
                        P(k) == PointOfTriple(vs[f.verts[((k - 1) % m) + 1]])
                    IN {Turn(n, P(k), P(k + 1), P(k + 2)) : k \in 1..m} \ {0}

FacesOK == pc = "done" => \A vs \in StorageOrders : AllFaceProps(vs, WithFaces(vs, Len(planes)))
\* convex and counter-clockwise about the inward normal: every proper corner turns the same way (+1)
CcwInward == pc = "done" => \A vs \in StorageOrders : \A i \in 1..Len(WithFaces(vs, Len(planes))) :
                 FaceTurns(vs, WithFaces(vs, Len(planes))[i]) \subseteq {1}
\* C14: what the decompositions feed, per plane, is determined by the vertex triples (VDecomp)
DecompOK == pc = "done" => \A vs \in StorageOrders : StreamsAgree(vs, Len(planes))
\* the same oriented cycles whatever the storage order
OrderIndependent == pc = "done" =>
    LET s0 == SortTriples({v.t : v \in verts})  f0 == WithFaces(s0, Len(planes))
    IN \A vs \in StorageOrders : LET f == WithFaces(vs, Len(planes))
                                IN /\ Len(f) = Len(f0)
                                   /\ \A i \in 1..Len(f) : /\ f[i].plane = f0[i].plane
                                                          /\ SameCycle([k \in 1..Len(f[i].verts) |-> Canon(vs[f[i].verts[k]])],
                                                                       [k \in 1..Len(f0[i].verts) |-> Canon(s0[f0[i].verts[k]])])
=============================================================================
