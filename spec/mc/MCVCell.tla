------------------------------ MODULE MCVCell ------------------------------
(* Model-checking / case-generation wrapper of VCell.                      *)
(* Inputs are either every n-subset (LNmin <= n <= LNmax) of the lattice   *)
(* box LG (exhaustive tier) or the records of the NDJSON file named by the *)
(* environment variable VV_INPUTS (seeded simulation tier, written by the  *)
(* driver).  LFix = TRUE keeps only subsets containing the origin (for    *)
(* periodic inputs every subset is a translate of one of those).  Emit = TRUE prints one JSON CASE line per finished cell, which *)
(* the driver replays into the implementation.                             *)
EXTENDS VCell, FiniteSetsExt, SequencesExt, Json, IOUtils

CONSTANTS LGx, LGy, LGz, LDim, LPer, LNmin, LNmax, LFix, UseFile, Emit

LG == <<LGx, LGy, LGz>>
LatticePoints ==
    LET hi(k) == IF LPer THEN LG[k] - 1 ELSE LG[k]
    IN {<<x, y, z>> : x \in 0..hi(1),
                      y \in (IF LDim >= 2 THEN 0..hi(2) ELSE {0}),
                      z \in (IF LDim >= 3 THEN 0..hi(3) ELSE {0})}
PKey(p) == 10000 * p[1] + 100 * p[2] + p[3]
SortedSeq(S) == SetToSortSeq(S, LAMBDA a, b : PKey(a) < PKey(b))
LatticeInputs ==
    {[id |-> 0, G |-> LG, dim |-> LDim, per |-> LPer, gens |-> SortedSeq(S)] :
        S \in {T \in UNION {kSubset(n, LatticePoints) : n \in LNmin..LNmax} : LFix => Zero3 \in T}}

FileInputs == LET f == ndJsonDeserialize(IOEnv.VV_INPUTS)
              IN {f[i] : i \in 1..Len(f)}

MCInputs == IF UseFile THEN FileInputs ELSE LatticeInputs

\* One line per finished cell.
EmitCase == (Emit /\ pc = "done") => PrintT(<<"CASE", ToJson(CaseRecord)>>)
EmitCaseFull == (Emit /\ pc = "done") =>
    PrintT(<<"CASE", ToJson([inp |-> inp] @@ CaseRecord)>>)
=============================================================================
