----------------------------- MODULE MCVSession -----------------------------
(* Generator of API histories (spec -> impl): every complete history of length MaxLen is printed once; the harness  *)
(* executes each on real objects and records the tokens; VSessionTrace validates the recorded sessions.             *)
EXTENDS VSession, Json
D3T == {TRUE}
D3F == {FALSE}
EmitHist == (Len(hist) = MaxLen) => PrintT(<<"HIST", ToJson([ops |-> hist])>>)
=============================================================================
