----------------------------- MODULE MCVMeasure -----------------------------
(* Exact measures (VMeasure) evaluated on every finished cell of the cell machine: the two signed decompositions   *)
(* agree per plane in volume, moments up to degree two, signed area and face moments (C14 / C13), every fed         *)
(* triangle lies in its plane, the surface is closed (C04), every face pyramid has volume area x height / 3, and    *)
(* one VOL line per cell carries the residues of 6 x volume for the tiling check VTileTrace (C02).                  *)
EXTENDS MCVFaces, VMeasure

PlanesOf == [i \in 1..Len(planes) |-> planes[i].pl]
PointsOf(vs) == [k \in 1..Len(vs) |-> PointOfTriple(vs[k])]
\* two storage orders: sorted, and every triple rotated (another plane is 'first' in every vertex)
MeasureOrders == LET s == SortTriples({v.t : v \in verts}) IN {s, [k \in 1..Len(s) |-> Rot1(s[k])]}
MeasureOK == pc = "done" => \A vs \in MeasureOrders : CellIdentities(Own, PlanesOf, vs, PointsOf(vs))
\* non-vacuity: for the first prime no cell is skipped
MeasurePrimeUsable == pc = "done" => \A vs \in MeasureOrders : PrimeOK(Primes[1], PlanesOf, vs, PointsOf(vs))

\* one line per finished cell: residues of 6 x volume, and per neighbour plane (j, s) the residues of the face's area vector
\* (twice the area, along the normal), of its signed area against the plane normal and of its first moments about the generator
VolRecord ==
    LET vs == SortTriples({v.t : v \in verts})
        hs == PointsOf(vs)
        NPr == Len(Primes)
        ok == [k \in 1..NPr |-> PrimeOK(Primes[k], PlanesOf, vs, hs)]
        T  == [k \in 1..NPr |-> IF ok[k] THEN Tables(Primes[k], Own, PlanesOf, vs, hs).wf ELSE [p \in 1..Len(planes) |-> ZeroAcc]]
    IN [G |-> inp.G, dim |-> inp.dim, per |-> inp.per, gens |-> inp.gens, id |-> inp.id, cell |-> c,
        r |-> [k \in 1..NPr |-> IF ok[k] THEN SumTab(Primes[k], T[k], 1).v ELSE -1],
        f |-> {[j |-> planes[p].j, s |-> planes[p].s,
                av |-> [k \in 1..NPr |-> T[k][p].av], a |-> [k \in 1..NPr |-> T[k][p].a], a1 |-> [k \in 1..NPr |-> T[k][p].a1]] :
               p \in {q \in 1..Len(planes) : planes[q].w = 0}}]
EmitVol == (Emit /\ pc = "done") => PrintT(<<"VOL", ToJson(VolRecord)>>)
=============================================================================
