---------------------------- MODULE MCVCycleInd -----------------------------
(***************************************************************************)
(* SimpleCycle (VCycle) checked as an INDUCTIVE step over EVERY well-formed *)
(* cycle on NPl planes - not only the cycles the cell machine happens to    *)
(* reach: for every well-formed state cy (every simple directed cycle of     *)
(* length 3..NPl, every start on it, every plane outside pointing to         *)
(* itself) and every triple of distinct planes tri,                          *)
(*   StepWF     try_extend either refuses and leaves the state untouched, or  *)
(*              yields a well-formed state again;                             *)
(*   StepEdges  the new cycle is the old one with the triangle glued on: the  *)
(*              directed edges of the triangle whose reverse is on the cycle   *)
(*              cancel, the others are added;                                  *)
(*   Refuses    it refuses exactly when the triangle is not attachable         *)
(*              (shares no edge, or gluing it would pinch the cycle);          *)
(*   InitWF     init(a, b, c) from ANY well-formed state - whatever was on the *)
(*              cycle before - is the 3-cycle a -> b -> c -> a with every      *)
(*              other plane pointing to itself (no stale entry survives).      *)
(* The states are enumerated as initial states; there is no transition.       *)
(***************************************************************************)
EXTENDS VCycle, TLC

CONSTANTS NPl
Pl == 1..NPl
VARIABLES cy, tri
Triples == {t \in Pl \X Pl \X Pl : t[1] # t[2] /\ t[2] # t[3] /\ t[1] # t[3]}
\* every well-formed state, built from its cycle sequence: q[1] = start, q[k] -> q[k+1], q[l] -> q[1]
Injective(q) == \A a \in DOMAIN q : \A b \in DOMAIN q : a # b => q[a] # q[b]
StateOf(q) == LET l == Len(q)
              IN [ptrs |-> [i \in Pl |-> IF \E k \in 1..l : q[k] = i
                                         THEN LET k == CHOOSE k \in 1..l : q[k] = i IN q[(k % l) + 1]
                                         ELSE i],
                  start |-> q[1], len |-> l]
Init == /\ \E l \in 3..NPl : \E q \in [1..l -> Pl] : Injective(q) /\ cy = StateOf(q)
        /\ tri \in Triples
Next == UNCHANGED <<cy, tri>>
Spec == Init /\ [][Next]_<<cy, tri>>

TriEdges(t) == {<<t[1], t[2]>>, <<t[2], t[3]>>, <<t[3], t[1]>>}
RevE(e) == <<e[2], e[1]>>
E0 == CyEdges(cy)
Shared == {e \in TriEdges(tri) : RevE(e) \in E0}                \* triangle edges glued to the cycle
OnCycle(i) == \E e \in E0 : e[1] = i
Apex == CHOOSE v \in {tri[1], tri[2], tri[3]} : \A e \in Shared : v # e[1] /\ v # e[2]
\* attachable: one shared edge and the opposite corner is new to the cycle, or two shared (consecutive) edges
\* on a cycle longer than three
Attachable == \/ Cardinality(Shared) = 1 /\ ~OnCycle(Apex)
              \/ Cardinality(Shared) = 2 /\ cy.len > 3
Glued == (E0 \ {RevE(e) : e \in Shared}) \cup (TriEdges(tri) \ Shared)
R == CyTryExtend(cy, tri)

\* (a triangle that closes the surface - all three edges glued to a 3-cycle - would mean that EVERY vertex of the cell
\* is removed; the builder never does that: the cell always keeps the part around its generator)
Closing == Cardinality(Shared) = 3
StepWF == Closing \/ IF R.ok THEN CyWellFormed(R.cy) /\ CyContains(R.cy, R.cy.start) ELSE R.cy = cy
StepEdges == (R.ok /\ ~Closing) => CyEdges(R.cy) = Glued
Refuses == Closing \/ (R.ok <=> Attachable)
InitWF == LET c2 == CyInit(cy, tri[1], tri[2], tri[3])
          IN /\ c2.len = 3 /\ c2.start = tri[1]
             /\ CySeq(c2) = <<tri[1], tri[2], tri[3]>>
             /\ \A i \in Pl : i \notin {tri[1], tri[2], tri[3]} => c2.ptrs[i] = i
             /\ CyWellFormed(c2)
=============================================================================
