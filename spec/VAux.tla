-------------------------------- MODULE VAux --------------------------------
(***************************************************************************)
(* Auxiliary structures (C20): the uniform-grid k-nearest-neighbour search  *)
(* (space.rs) and the bounding-sphere solvers (bounding_sphere.rs), by      *)
(* their DEFINITIONS on integer inputs:                                     *)
(*  - KnnOK: a result list is the k nearest other particles in order of      *)
(*    increasing distance (among equal distances any choice/order);          *)
(*  - MinSphere: the minimal enclosing sphere of a point set = the smallest  *)
(*    sphere through 2, 3 or 4 of the points (centre in their affine hull)   *)
(*    that contains all points - brute force over all support sets, exact    *)
(*    rational arithmetic.                                                   *)
(***************************************************************************)
EXTENDS VGeom, TLC

\* ---- k nearest neighbours
KnnOK(pts, i, res, k) ==
    LET n == Len(pts)
        d(j) == D2(pts[i], pts[j])
        S == {res[m] : m \in 1..Len(res)}
    IN /\ Len(res) = k
       /\ Cardinality(S) = k                                     \* no duplicates
       /\ i \notin S /\ S \subseteq 1..n                          \* other particles
       /\ \A m \in 1..k-1 : d(res[m]) <= d(res[m + 1])            \* increasing distance
       /\ \A j \in (1..n) \ (S \cup {i}) : k = 0 \/ d(j) >= d(res[k])   \* nothing closer was left out

\* ---- minimal enclosing sphere
\* numerator vector of (centre - point): X - W p
Num(c, p) == VSub(HXYZ(c), VScale(c[4], p))
\* p inside or on the sphere with centre c through a
InSphereC(c, a, p) == N2(Num(c, p)) <= N2(Num(c, a))
C2(a, b) == HNorm(<<a[1] + b[1], a[2] + b[2], a[3] + b[3], 2>>)
C3(a, b, c) == Vtx(Plane(VScale(2, VSub(b, a)), N2(b) - N2(a)), Plane(VScale(2, VSub(c, a)), N2(c) - N2(a)),
                   Plane(Cross(VSub(b, a), VSub(c, a)), Dot(Cross(VSub(b, a), VSub(c, a)), a)))
C4(a, b, c, d) == Vtx(Plane(VScale(2, VSub(b, a)), N2(b) - N2(a)), Plane(VScale(2, VSub(c, a)), N2(c) - N2(a)),
                      Plane(VScale(2, VSub(d, a)), N2(d) - N2(a)))
\* candidate spheres as [c |-> centre, a |-> a point on it]; support sets are unordered (Pick = any enumeration)
RECURSIVE SetToSeqAny(_)
SetToSeqAny(S) == IF S = {} THEN <<>> ELSE LET x == CHOOSE y \in S : TRUE IN <<x>> \o SetToSeqAny(S \ {x})
Subsets(P, k) == {T \in SUBSET P : Cardinality(T) = k}
Candidates(P) ==
    {LET s == SetToSeqAny(T) IN [c |-> C2(s[1], s[2]), a |-> s[1]] : T \in Subsets(P, 2)}
    \cup {LET s == SetToSeqAny(T) IN [c |-> C3(s[1], s[2], s[3]), a |-> s[1]] :
            T \in {U \in Subsets(P, 3) : LET s == SetToSeqAny(U) IN Cross(VSub(s[2], s[1]), VSub(s[3], s[1])) # <<0,0,0>>}}
    \cup {LET s == SetToSeqAny(T) IN [c |-> C4(s[1], s[2], s[3], s[4]), a |-> s[1]] :
            T \in {U \in Subsets(P, 4) : LET s == SetToSeqAny(U) IN Det3(VSub(s[2], s[1]), VSub(s[3], s[1]), VSub(s[4], s[1])) # 0}}
Enclosing(P) == {s \in Candidates(P) : \A p \in P : InSphereC(s.c, s.a, p)}
\* r1^2 <= r2^2 for two candidate spheres (fractions N2(num)/W^2, compared without overflow)
RadLeq(s1, s2) == CmpProd(N2(Num(s1.c, s1.a)), s2.c[4] * s2.c[4], N2(Num(s2.c, s2.a)), s1.c[4] * s1.c[4]) <= 0
Minimals(P) == LET E == Enclosing(P) IN {s \in E : \A t \in E : RadLeq(s, t)}
MinSphere(P) == CHOOSE s \in Minimals(P) : TRUE

---------------------------------------------------------------------------
(* Welzl's algorithm as the code runs it (bounding_sphere.rs:12-38, Sphere::from_boundary_points, Sphere::contains) in     *)
(* exact arithmetic.  A sphere is [k |-> "empty"] (radius 0 at the origin), [k |-> "s", c, a] (centre c through a; a point *)
(* sphere when c = a) or [k |-> "bad"]: three collinear or four coplanar boundary points - from_three_points /              *)
(* from_four_points would divide by zero.  `contains` is false for every sphere of radius zero (geometry.rs:218-221).      *)
SphereOf(b) ==
    CASE Len(b) = 0 -> [k |-> "empty"]
      [] Len(b) = 1 -> [k |-> "s", c |-> HPoint(b[1]), a |-> b[1]]
      [] Len(b) = 2 -> [k |-> "s", c |-> C2(b[1], b[2]), a |-> b[1]]
      [] Len(b) = 3 -> IF Cross(VSub(b[2], b[1]), VSub(b[3], b[1])) = <<0, 0, 0>> THEN [k |-> "bad"]
                       ELSE [k |-> "s", c |-> C3(b[1], b[2], b[3]), a |-> b[1]]
      [] OTHER      -> IF Det3(VSub(b[2], b[1]), VSub(b[3], b[1]), VSub(b[4], b[1])) = 0 THEN [k |-> "bad"]
                       ELSE [k |-> "s", c |-> C4(b[1], b[2], b[3], b[4]), a |-> b[1]]
ContainsW(s, p) == s.k = "s" /\ N2(Num(s.c, s.a)) > 0 /\ InSphereC(s.c, s.a, p)
RECURSIVE Welzl(_, _)
Welzl(pts, bnd) ==
    IF pts = <<>> \/ Len(bnd) = 4 THEN SphereOf(bnd)
    ELSE LET p    == pts[Len(pts)]                          \* points.pop()
             rest == SubSeq(pts, 1, Len(pts) - 1)
             s1   == Welzl(rest, bnd)
         IN IF s1.k = "bad" \/ ContainsW(s1, p) THEN s1 ELSE Welzl(rest, Append(bnd, p))
\* every order of the points
RECURSIVE PermsOf(_)
PermsOf(S) == IF S = {} THEN {<<>>} ELSE UNION {{<<x>> \o q : q \in PermsOf(S \ {x})} : x \in S}
=============================================================================
