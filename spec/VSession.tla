------------------------------ MODULE VSession ------------------------------
(***************************************************************************)
(* M-session: the public API of meshless_voronoi as ONE object with a       *)
(* history.  A session starts with VoronoiIntegrator::build(input, mask)    *)
(* and then performs any sequence of calls on that object; every call that  *)
(* observes something returns a TOKEN (the hash of everything the call      *)
(* returned, bit for bit).  The specification says what a history may NOT   *)
(* influence: an observation is a function of (input, mask, call,           *)
(* type-state) only - whatever was called before, however often.            *)
(*                                                                         *)
(* Type-state (VFaces.CanCall / AfterCall): WithoutFaces --with_faces-->    *)
(* WithFaces, 3D only (the integrator has no way back; single cells do:     *)
(* "cellrt" sends a clone of every cell through the other type-state and    *)
(* back and integrates it).                                                 *)
(*                                                                         *)
(* Calls:                                                                   *)
(*   cells    get_cell_at(i) for every i: index, location, planes, vertices *)
(*   cellset  the same without the storage order of the vertices            *)
(*   cellint  compute_cell_integrals::<VolumeCentroidIntegral>              *)
(*   faceint  compute_face_integrals::<AreaCentroidIntegral>                *)
(*   facesym  compute_face_integrals_sym::<AreaCentroidIntegral>            *)
(*   convert  Voronoi::from(&integrator)                                    *)
(*   direct   Voronoi::build / build_partial with the same arguments        *)
(*   rebuild  VoronoiIntegrator::build again: the cells of the NEW object   *)
(*   clone    the same observation "cells" on a clone of the object         *)
(*   cellrt   every cell: clone -> other type-state -> back -> integrate    *)
(*   radii    generator location and safety radius of every cell of the     *)
(*            converted tessellation (independent of the type-state)        *)
(*   withfaces  the transition                                             *)
(* Keys: which observations must coincide.                                  *)
(*   - direct = convert in WithoutFaces (C13: bitwise the same tessellation)*)
(*   - rebuild, clone = cells of the state they are taken in (rebuild: of   *)
(*     WithoutFaces, a fresh object)                                        *)
(*   - cellrt = cellint of the current type-state (the round trip through   *)
(*     the other type-state is the identity, C15)                           *)
(*   - cellset does not depend on the type-state (with_faces adds face      *)
(*     information, it does not touch planes or vertices)                   *)
(***************************************************************************)
EXTENDS Naturals, Sequences, FiniteSets, TLC

CONSTANTS Dims3,     \* generator: the set of values of dim3 to explore
          MaxLen     \* length of the generated histories

Observations == {"cells", "cellset", "cellint", "faceint", "facesym", "convert", "direct", "rebuild", "clone", "cellrt", "radii"}
Calls == Observations \cup {"withfaces"}
States == {"WithoutFaces", "WithFaces"}

VARIABLES dim3,   \* TRUE for a 3D session: with_faces / cellrt exist
          ts,     \* type-state of the object
          seen,   \* key -> token: what has been observed so far
          hist    \* the calls so far (generator only; hidden from the trace specification's verdicts)
vars == <<dim3, ts, seen, hist>>

CanCall(o, t) == /\ o = "withfaces" => dim3 /\ t = "WithoutFaces"
                 /\ o = "cellrt" => dim3
KeyOf(o, t) ==
    CASE o = "cellset"                       -> <<"cellset", "any">>
      [] o = "radii"                         -> <<"radii", "any">>
      [] o = "direct"                        -> <<"convert", "WithoutFaces">>
      [] o = "rebuild"                       -> <<"cells", "WithoutFaces">>
      [] o = "clone"                         -> <<"cells", t>>
      [] o = "cellrt"                        -> <<"cellint", t>>
      [] OTHER                               -> <<o, t>>

\* one call with result token tok
Call(o, tok) ==
    /\ CanCall(o, ts)
    /\ hist' = Append(hist, o)
    /\ UNCHANGED dim3
    /\ IF o = "withfaces"
       THEN ts' = "WithFaces" /\ UNCHANGED seen
       ELSE LET k == KeyOf(o, ts)
            IN /\ k \in DOMAIN seen => seen[k] = tok            \* PURE: the history cannot change an observation
               /\ seen' = IF k \in DOMAIN seen THEN seen ELSE seen @@ (k :> tok)
               /\ UNCHANGED ts

Init == dim3 \in Dims3 /\ ts = "WithoutFaces" /\ seen = <<>> /\ hist = <<>>
\* generator: tokens are abstract (0)
Next == Len(hist) < MaxLen /\ \E o \in Calls : Call(o, 0)
Spec == Init /\ [][Next]_vars

TypeOK == ts \in States /\ Len(hist) <= MaxLen
\* the type-state only moves forward and only through withfaces
Monotone == [][ts' # ts => ts = "WithoutFaces" /\ ts' = "WithFaces" /\ hist'[Len(hist')] = "withfaces"]_vars
\* no accessor of face information is reachable in 1D / 2D
NoFacesBelow3D == ~dim3 => ts = "WithoutFaces"
=============================================================================
