------------------------------- MODULE VDecomp -------------------------------
(***************************************************************************)
(* The two decompositions of a cell into oriented tetrahedra with the       *)
(* generator as apex (convex_cell.rs:101-199), as cursors over the discrete *)
(* structure:                                                               *)
(*  - without faces: for every vertex (storage order) six tetrahedra         *)
(*    t = 0..5, base = (projection[t], projection[(t+5)%6], vertex),          *)
(*    attributed to plane dual[t / 2]   (DecompositionWithoutFaces::next);    *)
(*  - with faces: for every face (plane order) a fan of k - 2 triangles       *)
(*    (v0, v_i, v_i+1), attributed to the face's plane                        *)
(*    (DecompositionWithFaces::next).                                        *)
(* What a cell / face integral is fed is therefore determined, as a multiset *)
(* of (plane, count), by the vertex triples alone.                           *)
(***************************************************************************)
EXTENDS VFaces

\* the stream of plane attributions, without faces
RECURSIVE WoStream(_, _)
WoStream(vs, k) == IF k > Len(vs) THEN <<>>
                   ELSE <<vs[k][1], vs[k][1], vs[k][2], vs[k][2], vs[k][3], vs[k][3]>> \o WoStream(vs, k + 1)
\* ... and with faces
RECURSIVE Repeat(_, _)
Repeat(x, n) == IF n <= 0 THEN <<>> ELSE <<x>> \o Repeat(x, n - 1)
RECURSIVE WfStream(_, _)
WfStream(fs, i) == IF i > Len(fs) THEN <<>> ELSE Repeat(fs[i].plane, Len(fs[i].verts) - 2) \o WfStream(fs, i + 1)

CountIn(s, x) == Cardinality({k \in 1..Len(s) : s[k] = x})
VertsOn(vs, p) == Cardinality({k \in 1..Len(vs) : Contains(vs[k], p)})

\* every plane is fed 2 triangles per vertex lying on it (without faces) / k - 2 (with faces)
WoCounts(vs, np) == [p \in 1..np |-> 2 * VertsOn(vs, p)]
WfCounts(vs, np) == [p \in 1..np |-> IF VertsOn(vs, p) = 0 THEN 0 ELSE VertsOn(vs, p) - 2]
StreamsAgree(vs, np) ==
    /\ \A p \in 1..np : CountIn(WoStream(vs, 1), p) = WoCounts(vs, np)[p]
    /\ NotStuck(WithFaces(vs, np)) => \A p \in 1..np : CountIn(WfStream(WithFaces(vs, np), 1), p) = WfCounts(vs, np)[p]
    /\ Len(WoStream(vs, 1)) = 6 * Len(vs)
=============================================================================
