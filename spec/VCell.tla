------------------------------- MODULE VCell -------------------------------
(***************************************************************************)
(* M-cell: the per-cell construction machine of meshless_voronoi           *)
(* (ConvexCell::{init, build, clip_by_plane, compute_boundary,             *)
(* update_safety_radius}, convex_cell.rs) on exact lattice inputs.         *)
(*                                                                         *)
(* One behaviour = the construction of one cell of one input.  State:      *)
(*   inp      the input: [G, dim, per, gens] - lattice box widths, 1..3,   *)
(*            periodic flag, sequence of generator points (unused          *)
(*            coordinates are 0, as Generator::new projects them)          *)
(*   c        index of the cell being built (1-based)                      *)
(*   planes   the half-spaces stored so far (sequence): six walls, then    *)
(*            one bisector per candidate that actually cut the cell        *)
(*   verts    the vertices: records [t |-> ccw plane-index triple in       *)
(*            canonical rotation, h |-> exact homogeneous point]           *)
(*   visited  candidates taken from the nearest-neighbour stream so far    *)
(*   pc       "visit" | "done"                                             *)
(*   last     the last candidate taken and what was done with it           *)
(*   flags    history bits used for classification / non-vacuity           *)
(*                                                                         *)
(* The unused axes of 1D/2D inputs carry the slab [-1, 1] (the code's       *)
(* [-0.5, 0.5] in doubled coordinates; the harness halves them).           *)
(***************************************************************************)
EXTENDS VGeom, TLC

CONSTANTS Inputs,     \* set of input records
          Ties,       \* "keep": a vertex exactly on the new plane is kept (what exact arithmetic
                      \*         on true coordinates decides: clip = 0 is not < 0)
                      \* "any" : it may go either way (the code decides ties on snapped coordinates)
          Order       \* "all": every order of equidistant candidates; "fixed": one canonical order

VARIABLES inp, c, planes, verts, visited, pc, last, flags
vars == <<inp, c, planes, verts, visited, pc, last, flags>>

---------------------------------------------------------------------------
(* the input *)
Zero3 == <<0, 0, 0>>
ActOf(I) == <<1, IF I.dim >= 2 THEN 1 ELSE 0, IF I.dim >= 3 THEN 1 ELSE 0>>
\* The box the cell is initialised to: the simulation box, tripled along the active axes when
\* periodic (boundary.rs:18-31); slab [-1,1] on unused axes (voronoi.rs:216-224, doubled).
BoxLoOf(I) == [k \in 1..3 |-> IF ActOf(I)[k] = 1 THEN (IF I.per THEN -I.G[k] ELSE 0) ELSE -1]
BoxHiOf(I) == [k \in 1..3 |-> IF ActOf(I)[k] = 1 THEN (IF I.per THEN 2 * I.G[k] ELSE I.G[k]) ELSE 1]
\* Periodic images enumerated by the wrapped search (rtree_nn.rs:82-98): all of {-1,0,1} on the
\* active axes, nothing on the unused ones.
ShiftsOf(I) ==
    IF I.per
    THEN {<<a, b, d>> : a \in {-1, 0, 1},
                        b \in (IF I.dim >= 2 THEN {-1, 0, 1} ELSE {0}),
                        d \in (IF I.dim >= 3 THEN {-1, 0, 1} ELSE {0})}
    ELSE {Zero3}
CandsOf(I, cc) == {q \in (1..Len(I.gens)) \X ShiftsOf(I) : ~(q[1] = cc /\ q[2] = Zero3)}
CandPosOf(I, q) == VAdd(I.gens[q[1]], VMul(q[2], I.G))

Act == ActOf(inp)
Own == inp.gens[c]
Cands == CandsOf(inp, c)
CandPos(q) == CandPosOf(inp, q)
CandD2(q) == D2(Own, CandPos(q))
CandPlane(q) == Bis(Own, CandPos(q))
ShiftKey(s) == 9 * (s[1] + 1) + 3 * (s[2] + 1) + (s[3] + 1)
CandKey(q) == 27 * q[1] + ShiftKey(q[2])

---------------------------------------------------------------------------
(* combinatorics of the dual triangulation *)
Canon(t) == IF t[1] < t[2] /\ t[1] < t[3] THEN t
            ELSE IF t[2] < t[1] /\ t[2] < t[3] THEN <<t[2], t[3], t[1]>>
            ELSE <<t[3], t[1], t[2]>>
Edges(t) == {<<t[1], t[2]>>, <<t[2], t[3]>>, <<t[3], t[1]>>}
Rev(e) == <<e[2], e[1]>>
Adjacent(t1, t2) == \E e \in Edges(t1) : Rev(e) \in Edges(t2)

\* The eight corners of the box with exactly the duals of convex_cell.rs:313-322 (1-based here).
InitTriples == { <<3,6,1>>, <<6,4,1>>, <<2,6,3>>, <<6,2,4>>,
                 <<5,3,1>>, <<5,1,4>>, <<3,5,2>>, <<5,4,2>> }

WallDesc(I, w) == [w |-> w, j |-> 0, s |-> Zero3, pl |-> Wall(w, BoxLoOf(I), BoxHiOf(I))]
NgbDesc(q, p)  == [w |-> 0, j |-> q[1], s |-> q[2], pl |-> p]

PointOf(ps, t) == Vtx(ps[t[1]].pl, ps[t[2]].pl, ps[t[3]].pl)
IndependentAt(ps, t) == PlanesIndependent(ps[t[1]].pl, ps[t[2]].pl, ps[t[3]].pl)

---------------------------------------------------------------------------
Init ==
    \E I \in Inputs : \E cc \in 1..Len(I.gens) :
        /\ inp = I
        /\ c = cc
        /\ planes = [w \in 1..6 |-> WallDesc(I, w)]
        /\ verts = {[t |-> Canon(t), h |-> PointOf([w \in 1..6 |-> WallDesc(I, w)], t)] : t \in InitTriples}
        /\ visited = {}
        /\ pc = "visit"
        /\ last = [q |-> <<cc, Zero3>>, d2 |-> 0, act |-> "init"]
        /\ flags = [tie |-> FALSE, edgetie |-> FALSE, eqterm |-> FALSE, nclip |-> 0]

\* Strictly clipped vertices / vertices exactly on the plane.
StrictOut(p) == {v \in verts : Side(v.h, p) < 0}
OnPlane(p)   == {v \in verts : Side(v.h, p) = 0}

\* A positive-length edge of the current cell lies in p.
EdgeIn(T) == \E v1 \in T : \E v2 \in T : v1.h # v2.h /\ Adjacent(v1.t, v2.t)

\* Boundary of the removed dual disc: directed edges of removed triangles whose reverse is not
\* an edge of a removed triangle (what SimpleCycle accumulates, simple_cycle.rs:45-79).
BoundaryEdges(R) == LET RE == UNION {Edges(v.t) : v \in R}
                    IN {e \in RE : Rev(e) \notin RE}

\* Location of the new vertex on the boundary edge e = (x -> y) of the removed set R under the new plane pi
\* (convex_cell.rs, clip_by_plane + Vertex::from_dual_on_edge): the intersection of the three planes when they are
\* independent; when the supporting line of the edge lies in the new plane (dependent triple - possible only when
\* tie decisions split an edge that lies in the plane, see Ties = "any") the new vertex takes the place of the
\* removed end point of the edge (both end points are on the plane then).
EdgeOwner(R, e) == CHOOSE v \in R : e \in Edges(v.t)
NewPoint(ps2, R, e, pi) ==
    IF IndependentAt(ps2, <<e[1], e[2], pi>>) THEN PointOf(ps2, <<e[1], e[2], pi>>) ELSE EdgeOwner(R, e).h

\* clip_by_plane (convex_cell.rs) with removed set R.
ApplyClip(q, p, R) ==
    IF R = {}
    THEN UNCHANGED <<planes, verts>> /\ pc' = "visit"         \* plane not even stored
    ELSE LET pi  == Len(planes) + 1
             ps2 == Append(planes, NgbDesc(q, p))
             B   == BoundaryEdges(R)
         IN /\ planes' = ps2
            /\ verts' = (verts \ R) \cup
                         {[t |-> Canon(<<e[1], e[2], pi>>), h |-> NewPoint(ps2, R, e, pi)] : e \in B}
            /\ pc' = "visit"

\* One iteration of the loop in ConvexCell::build (convex_cell.rs:349-380) for candidate q at
\* squared distance dd.  safety_radius = 2 sqrt(max r^2) (:514-524), r^2 in the active subspace
\* (:38-47); the loop returns iff safety_radius < dist, i.e. 4 r^2max < dd.  At exact equality a
\* double can fall either way (and the cut would have zero measure), so both are allowed.
VisitCand(q, dd) ==
    LET cmp    == {CmpRad(4, v.h, Own, Act, dd) : v \in verts}
        termOK == \A s \in cmp : s <= 0
        contOK == \E s \in cmp : s >= 0
        p      == CandPlane(q)
        so     == StrictOut(p)
        on     == OnPlane(p)
    IN /\ visited' = visited \cup {q}
       /\ \/ /\ termOK
             /\ pc' = "done"
             /\ last' = [q |-> q, d2 |-> dd, act |-> "term"]
             /\ flags' = [flags EXCEPT !.eqterm = @ \/ contOK]
             /\ UNCHANGED <<planes, verts>>
          \/ /\ contOK
             /\ \E R \in (IF Ties = "keep" THEN {so} ELSE {so \cup T : T \in SUBSET on}) :
                   /\ ApplyClip(q, p, R)
                   /\ last' = [q |-> q, d2 |-> dd, act |-> IF R = {} THEN "nocut" ELSE "cut"]
             /\ flags' = [tie     |-> flags.tie \/ on # {},
                          edgetie |-> flags.edgetie \/ EdgeIn(on),
                          eqterm  |-> flags.eqterm \/ termOK,
                          nclip   |-> flags.nclip + 1]

MinUnvisited ==
    LET U == Cands \ visited
        m == SetMin({CandD2(q) : q \in U})
    IN {q \in U : CandD2(q) = m}

Visit ==
    /\ pc = "visit"
    /\ UNCHANGED <<inp, c>>
    /\ IF Cands \ visited = {}
       THEN /\ pc' = "done"                                   \* stream exhausted (:382)
            /\ last' = [last EXCEPT !.act = "exhausted"]
            /\ UNCHANGED <<planes, verts, visited, flags>>
       ELSE LET M == MinUnvisited
                Q == IF Order = "all" THEN M
                     ELSE {CHOOSE q \in M : \A q2 \in M : CandKey(q) <= CandKey(q2)}
            IN \E q \in Q : VisitCand(q, CandD2(q))

Next == Visit
Spec == Init /\ [][Next]_vars
\* Totality (C05 at design level): under weak fairness of the loop the builder always finishes - every iteration takes one
\* more candidate from a finite stream, or stops.
LiveSpec == Spec /\ WF_vars(Next)
Terminates == <>(pc = "done")

---------------------------------------------------------------------------
(* invariants *)
TypeOK ==
    /\ c \in 1..Len(inp.gens)
    /\ pc \in {"visit", "done"}
    /\ \A v \in verts : /\ v.t \in (1..Len(planes)) \X (1..Len(planes)) \X (1..Len(planes))
                        /\ v.t = Canon(v.t)
                        /\ v.h[4] > 0

\* Exact arithmetic with ties kept never produces a dependent plane triple: every vertex is the intersection of
\* three independent planes (the edge fall-back of NewPoint is never taken).
NoDegenerate == \A v \in verts : IndependentAt(planes, v.t)

AllEdges == UNION {Edges(v.t) : v \in verts}
\* Closed oriented surface: every directed dual edge occurs in exactly one vertex and its reverse
\* occurs too (three planes per vertex by construction).
Closed ==
    /\ \A v1 \in verts : \A v2 \in verts : v1 # v2 => Edges(v1.t) \cap Edges(v2.t) = {}
    /\ \A e \in AllEdges : Rev(e) \in AllEdges
    /\ \A v \in verts : Cardinality({v.t[1], v.t[2], v.t[3]}) = 3
UsedPlanes == UNION {{v.t[1], v.t[2], v.t[3]} : v \in verts}
\* V - E + F = 2 with E = 3V/2.
Euler == 2 * Cardinality(verts) - 3 * Cardinality(verts) + 2 * Cardinality(UsedPlanes) = 4

\* "counter-clockwise around the vertex": the determinant of the three inward normals has the
\* sign it has for the corners of the box (negative), for every vertex ever created.
Oriented == \A v \in verts : Det3(planes[v.t[1]].pl.n, planes[v.t[2]].pl.n, planes[v.t[3]].pl.n) < 0
\* with arbitrary tie decisions a vertex may sit on a dependent triple (determinant 0), never on a reversed one
OrientedWeak == \A v \in verts : Det3(planes[v.t[1]].pl.n, planes[v.t[2]].pl.n, planes[v.t[3]].pl.n) <= 0

\* Every vertex lies on its three planes and inside every stored half-space.
InsideCurrent ==
    \A v \in verts : \A i \in 1..Len(planes) :
        IF i \in {v.t[1], v.t[2], v.t[3]} THEN Side(v.h, planes[i].pl) = 0
                                          ELSE Side(v.h, planes[i].pl) >= 0

\* Soundness of the safety-radius termination: when the builder stops, every vertex satisfies the
\* bisector of EVERY candidate, visited or not.  Together with Closed/Oriented/InsideCurrent this
\* makes the cell equal to the intersection of all half-spaces, i.e. the nearest-generator region:
\* the stored planes bound a closed convex surface whose vertices all lie in the region, so
\* conv(verts) = /\ stored planes  >=  region  >=  conv(verts).
\* (Evaluation shortcut, pure geometry and independent of the algorithm: a point at distance r from
\* the generator can only be closer to q if |q - g| < 2r, so candidates with d^2 > 4 r^2max need no
\* Side test.  RadUB is an integer upper bound of 4 r^2max, or -1 when the numbers are too large
\* for the shortcut - then every candidate is tested.)
RadUB ==
    LET ub(v) == LET u == VMul(Act, VSub(HXYZ(v.h), VScale(v.h[4], Own)))
                     m == Max2(Max2(Abs(u[1]), Abs(u[2])), Abs(u[3]))
                 IN IF m < 10000 THEN (4 * N2(u)) \div (v.h[4] * v.h[4]) + 1 ELSE -1
        S == {ub(v) : v \in verts}
    IN IF -1 \in S THEN -1 ELSE SetMax(S)
FinalAt(ub) == \A q \in Cands : (ub < 0 \/ CandD2(q) <= ub) => \A v \in verts : Side(v.h, CandPlane(q)) >= 0
Final == pc = "done" => FinalAt(RadUB)
FinalFull == pc = "done" => \A v \in verts : \A q \in Cands : Side(v.h, CandPlane(q)) >= 0

\* Candidates are taken in non-decreasing distance.
SortedVisits == \A q2 \in Cands \ visited : last.d2 <= CandD2(q2)

\* C16: on termination every vertex is within half the distance of the candidate that stopped the
\* builder, and candidates not yet visited are at least that far.
SafetyBound ==
    (pc = "done" /\ last.act = "term") =>
        /\ \A v \in verts : CmpRad(4, v.h, Own, Act, last.d2) <= 0
        /\ \A q \in Cands \ visited : CandD2(q) >= last.d2

\* C16, second clause (design level): a generator placed at ANY lattice point strictly farther from Own than the
\* safety radius (= twice the distance to the farthest vertex: 4 r^2 < d^2 for every vertex) cannot cut the finished
\* cell - whatever else the input contains.  q ranges over the lattice points of the (tripled, if periodic) box on the
\* active axes; the unused coordinates are 0 (Generator::new projects them).
FarPoints == LET lo == BoxLoOf(inp)  hi == BoxHiOf(inp)
             IN {<<x, y, z>> : x \in lo[1]..hi[1],
                               y \in (IF Act[2] = 1 THEN lo[2]..hi[2] ELSE {0}),
                               z \in (IF Act[3] = 1 THEN lo[3]..hi[3] ELSE {0})}
FarIrrelevant ==
    pc = "done" =>
        \A q \in FarPoints :
            (q # Own /\ \A v \in verts : CmpRad(4, v.h, Own, Act, D2(Own, q)) < 0)
                => \A v \in verts : Side(v.h, Bis(Own, q)) >= 0

\* C06: along periodic axes no wall carries a vertex once the cell is finished; shifts are
\* lattice vectors in {-1,0,1} on the active axes.
PeriodicNoWalls ==
    (pc = "done" /\ inp.per) =>
        \A v \in verts : \A i \in {v.t[1], v.t[2], v.t[3]} :
            planes[i].w # 0 => Act[WallAxis(planes[i].w)] = 0
ShiftLattice ==
    \A i \in 1..Len(planes) :
        /\ planes[i].w # 0 => planes[i].s = Zero3
        /\ \A k \in 1..3 : /\ planes[i].s[k] \in {-1, 0, 1}
                           /\ (Act[k] = 0 \/ ~inp.per) => planes[i].s[k] = 0

\* C10: every position handed to the exact predicate lies in the domain of the integer grid
\* (boundary.rs:42-47: [lo - 1.5 W, lo + 2.5 W) per axis, [lo, lo + W] the initial box of the cell) - the
\* generator, every candidate image, and the mirror images of the generator through the walls
\* (HalfSpace::right_loc of a wall).  In doubled coordinates: 2x in [2 lo - 3 W, 2 lo + 5 W).
InGridDomain(x) == \A k \in 1..3 : LET lo == BoxLoOf(inp)[k]  W == BoxHiOf(inp)[k] - BoxLoOf(inp)[k]
                                    IN 2 * x[k] >= 2 * lo - 3 * W /\ 2 * x[k] < 2 * lo + 5 * W
QueriesInDomain ==
    /\ InGridDomain(Own)
    /\ \A q \in Cands : InGridDomain(CandPos(q))
    /\ \A w \in 1..6 : InGridDomain(Mirror(Own, w, BoxLoOf(inp), BoxHiOf(inp)))

\* C08: nothing depends on the unused axes - every bisector normal vanishes there and every
\* vertex sits on the slab walls +-1.
LowDimPrism ==
    /\ \A i \in 1..Len(planes) : planes[i].w = 0 => \A k \in 1..3 : Act[k] = 0 => planes[i].pl.n[k] = 0
    /\ \A v \in verts : \A k \in 1..3 : Act[k] = 0 => v.h[k] \in {v.h[4], -v.h[4]}

\* View for model checking with Order = "all": two states that differ only in the numbering of the
\* stored planes (the order in which equidistant candidates were taken) and in history bits are the
\* same cell; the future depends only on this view.
DescKey(pd) == <<pd.w, pd.j, pd.s>>
AbstractView == <<inp, c, {<<v.h, {DescKey(planes[i]) : i \in {v.t[1], v.t[2], v.t[3]}}>> : v \in verts},
                  visited, pc>>

---------------------------------------------------------------------------
(* what the finished cell looks like from outside: used for replay into the implementation *)
OnSet(v) == {i \in 1..Len(planes) : Side(v.h, planes[i].pl) = 0}
Farthest == CHOOSE v \in verts : \A v2 \in verts : CmpRad2(v.h, v2.h, Own, Act) >= 0
CaseRecord ==
    [ id     |-> inp.id,
      cell   |-> c - 1,
      planes |-> [i \in 1..Len(planes) |-> [w |-> planes[i].w, j |-> planes[i].j - 1, s |-> planes[i].s,
                                            n |-> planes[i].pl.n, d |-> planes[i].pl.d]],
      verts  |-> {[h |-> v.h, t |-> <<v.t[1] - 1, v.t[2] - 1, v.t[3] - 1>>, on |-> {i - 1 : i \in OnSet(v)}] : v \in verts},
      far    |-> Farthest.h,
      last   |-> [j |-> last.q[1] - 1, s |-> last.q[2], d2 |-> last.d2, act |-> last.act],
      nvis   |-> Cardinality(visited),
      flags  |-> flags ]

=============================================================================
