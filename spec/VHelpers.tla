------------------------------ MODULE VHelpers ------------------------------
(***************************************************************************)
(* The exported geometry helpers (geometry.rs: Plane, Sphere,              *)
(* intersect_planes, signed_volume_tet, signed_area_tri) as exact closed   *)
(* forms on integer arguments.  A case is a record [op, args]; Expected     *)
(* gives the exact (rational / homogeneous) result; the invariants are the  *)
(* DEFINING EQUATIONS the property states, checked by TLC on the closed     *)
(* forms for every small integer argument tuple - so the reference the      *)
(* implementation is compared with is itself known to be right.             *)
(* Results: points as homogeneous 4-tuples; scalars as <<num, den>>;        *)
(* radii as squared radii <<num, den>>.                                     *)
(***************************************************************************)
EXTENDS VGeom, TLC, Json

CONSTANTS R,          \* coordinate range: points with coordinates in -R..R
          EmitMod, Emit

\* a rational point (homogeneous) on plane [n, p]?  (x - p).n = 0
OnPlaneNP(h, n, p) == Dot(n, HXYZ(h)) - h[4] * Dot(n, p) = 0
PlaneOfNP(n, p) == Plane(n, Dot(n, p))

---------------------------------------------------------------------------
(* closed forms *)
\* Plane::project_onto: point + ((p - point).n / |n|^2) n
ProjectOnto(n, p, x) == HNorm(<<x[1] * N2(n) + Dot(VSub(p, x), n) * n[1],
                                x[2] * N2(n) + Dot(VSub(p, x), n) * n[2],
                                x[3] * N2(n) + Dot(VSub(p, x), n) * n[3], N2(n)>>)
\* Plane::project_onto_intersection(self = (n1,p1), other = (n2,p2), x): the point of both planes in the plane
\* through x perpendicular to both
ProjectOntoIntersection(n1, p1, n2, p2, x) == Vtx(PlaneOfNP(n1, p1), PlaneOfNP(n2, p2), PlaneOfNP(Cross(n1, n2), x))
Intersect3(n0, p0, n1, p1, n2, p2) == Vtx(PlaneOfNP(n0, p0), PlaneOfNP(n1, p1), PlaneOfNP(n2, p2))
SixVol(v0, v1, v2, v3) == Det3(VSub(v1, v0), VSub(v2, v0), VSub(v3, v0))          \* 6 * signed_volume_tet
FourAreaSq(v0, v1, v2) == N2(Cross(VSub(v1, v0), VSub(v2, v0)))                    \* (2 * area)^2
AreaSign(v0, v1, v2, t) == Sign(Det3(VSub(v1, v0), VSub(v2, v0), VSub(t, v0)))     \* sign of signed_area_tri
\* spheres: centre (homogeneous) and squared radius <<num, den>>
Rad2(c, a) == LET u == VSub(HXYZ(c), VScale(c[4], a)) IN <<N2(u), c[4] * c[4]>>       \* |c - a|^2 as a fraction
TwoPointCentre(a, b) == HNorm(<<a[1] + b[1], a[2] + b[2], a[3] + b[3], 2>>)
ThreePointCentre(a, b, c) == Vtx(Plane(VScale(2, VSub(b, a)), N2(b) - N2(a)), Plane(VScale(2, VSub(c, a)), N2(c) - N2(a)),
                                 PlaneOfNP(Cross(VSub(b, a), VSub(c, a)), a))
FourPointCentre(a, b, c, d) == Vtx(Plane(VScale(2, VSub(b, a)), N2(b) - N2(a)), Plane(VScale(2, VSub(c, a)), N2(c) - N2(a)),
                                   Plane(VScale(2, VSub(d, a)), N2(d) - N2(a)))
\* equality of two non-negative fractions without overflow (big-natural products, VGeom.CmpProd)
FracEq(f, g) == CmpProd(f[1], g[2], g[1], f[2]) = 0
\* Sphere::extend for a sphere with integer centre c and integer radius r and a point x at INTEGER distance d > r
\* (axis-aligned or Pythagorean offsets): new radius (r + d) / 2, new centre x + (c - x) (r + d) / (2 d)
ExtendCentre(c, r, x, d) == HNorm(<<2 * d * x[1] + (c[1] - x[1]) * (r + d), 2 * d * x[2] + (c[2] - x[2]) * (r + d),
                                    2 * d * x[3] + (c[3] - x[3]) * (r + d), 2 * d>>)

---------------------------------------------------------------------------
(* the cases *)
Pts == {<<x, y, z>> : x \in -R..R, y \in -R..R, z \in -R..R}
SmallPts == {<<x, y, z>> : x \in 0..R, y \in 0..R, z \in 0..1}
Normals == {<<1,0,0>>, <<0,1,0>>, <<0,0,1>>, <<1,1,0>>, <<1,-1,2>>, <<2,0,0>>, <<0,3,-1>>, <<-1,2,2>>, <<3,1,1>>, <<0,-2,0>>}
IntOffsets == {<<3,0,0>>, <<0,-4,0>>, <<0,0,5>>, <<3,4,0>>, <<0,-3,4>>, <<2,3,6>>, <<-1,-2,2>>, <<6,0,8>>}   \* integer lengths 3,4,5,5,5,7,3,10
ILen(o) == CHOOSE k \in 1..20 : k * k = N2(o)

VARIABLES cs
Init ==
    \/ \E n \in Normals, p \in SmallPts, x \in SmallPts : cs = [op |-> "project_onto", n |-> n, p |-> p, x |-> x]
    \/ \E n1 \in Normals, n2 \in Normals, p1 \in {<<0,0,0>>, <<1,2,0>>}, p2 \in {<<0,1,1>>, <<2,0,1>>}, x \in {<<0,0,0>>, <<1,1,1>>, <<2,-1,0>>, <<-1,0,2>>} :
          Cross(n1, n2) # <<0,0,0>> /\ cs = [op |-> "project_onto_intersection", n1 |-> n1, p1 |-> p1, n2 |-> n2, p2 |-> p2, x |-> x]
    \/ \E n0 \in Normals, n1 \in Normals, n2 \in Normals, q \in {<<<<0,0,0>>, <<1,2,0>>, <<0,1,1>>>>, <<<<2,0,1>>, <<-1,1,0>>, <<1,1,3>>>>} :
          Det3(n0, n1, n2) # 0 /\ cs = [op |-> "intersect_planes", n0 |-> n0, p0 |-> q[1], n1 |-> n1, p1 |-> q[2], n2 |-> n2, p2 |-> q[3]]
    \/ \E v0 \in {<<0,0,0>>, <<1,-1,2>>}, v1 \in SmallPts, v2 \in SmallPts, v3 \in {<<0,0,1>>, <<1,2,-1>>, <<-2,1,3>>} :
          cs = [op |-> "signed_volume_tet", v0 |-> v0, v1 |-> v1, v2 |-> v2, v3 |-> v3]
    \/ \E v0 \in {<<0,0,0>>, <<1,-1,2>>}, v1 \in SmallPts, v2 \in SmallPts, t \in {<<0,0,1>>, <<1,2,-1>>, <<-2,1,3>>} :
          AreaSign(v0, v1, v2, t) # 0 /\ cs = [op |-> "signed_area_tri", v0 |-> v0, v1 |-> v1, v2 |-> v2, t |-> t]
    \/ \E a \in SmallPts, b \in SmallPts : a # b /\ cs = [op |-> "from_two_points", a |-> a, b |-> b]
    \/ \E a \in {<<0,0,0>>, <<1,-1,2>>}, b \in SmallPts, c \in SmallPts :
          Cross(VSub(b, a), VSub(c, a)) # <<0,0,0>> /\ cs = [op |-> "from_three_points", a |-> a, b |-> b, c |-> c]
    \/ \E a \in {<<0,0,0>>, <<1,-1,2>>}, b \in SmallPts, c \in SmallPts, d \in {<<0,0,1>>, <<0,2,1>>, <<1,2,-1>>, <<-2,1,3>>, <<3,1,2>>} :
          Det3(VSub(b, a), VSub(c, a), VSub(d, a)) # 0 /\ cs = [op |-> "from_four_points", a |-> a, b |-> b, c |-> c, d |-> d]
    \/ \E c \in {<<0,0,0>>, <<1,-2,3>>}, r \in {1, 2, 4}, o \in IntOffsets :
          cs = [op |-> "extend", c |-> c, r |-> r, x |-> VAdd(c, o), d |-> ILen(o)]
Spec == Init /\ [][UNCHANGED cs]_cs

---------------------------------------------------------------------------
(* the defining equations, on the closed forms *)
DefProject == cs.op = "project_onto" =>
    LET r == ProjectOnto(cs.n, cs.p, cs.x)
    IN /\ OnPlaneNP(r, cs.n, cs.p)                                                          \* lands on the plane
       /\ Cross(VSub(HXYZ(r), VScale(r[4], cs.x)), cs.n) = <<0, 0, 0>>                       \* along the normal
       /\ (OnPlaneNP(HPoint(cs.x), cs.n, cs.p) => r = HPoint(cs.x))                          \* idempotent on the plane
DefProjectIntersection == cs.op = "project_onto_intersection" =>
    LET r == ProjectOntoIntersection(cs.n1, cs.p1, cs.n2, cs.p2, cs.x)
    IN /\ OnPlaneNP(r, cs.n1, cs.p1) /\ OnPlaneNP(r, cs.n2, cs.p2)                           \* on the intersection line
       /\ Dot(VSub(HXYZ(r), VScale(r[4], cs.x)), Cross(cs.n1, cs.n2)) = 0                    \* moved within span(n1, n2)
DefIntersect == cs.op = "intersect_planes" =>
    LET r == Intersect3(cs.n0, cs.p0, cs.n1, cs.p1, cs.n2, cs.p2)
    IN OnPlaneNP(r, cs.n0, cs.p0) /\ OnPlaneNP(r, cs.n1, cs.p1) /\ OnPlaneNP(r, cs.n2, cs.p2)
DefVolume == cs.op = "signed_volume_tet" =>
    /\ SixVol(cs.v0, cs.v1, cs.v2, cs.v3) = -SixVol(cs.v1, cs.v0, cs.v2, cs.v3)              \* antisymmetric under swaps
    /\ SixVol(cs.v0, cs.v1, cs.v2, cs.v3) = -SixVol(cs.v0, cs.v2, cs.v1, cs.v3)
    /\ SixVol(cs.v0, cs.v1, cs.v2, cs.v3) = -SixVol(cs.v0, cs.v1, cs.v3, cs.v2)
    /\ SixVol(<<0,0,0>>, <<1,0,0>>, <<0,1,0>>, <<0,0,1>>) = 1                                 \* ccw seen from v3 => positive
DefArea == cs.op = "signed_area_tri" =>
    /\ AreaSign(cs.v0, cs.v1, cs.v2, cs.t) = -AreaSign(cs.v0, cs.v2, cs.v1, cs.t)
    /\ FourAreaSq(cs.v0, cs.v1, cs.v2) = FourAreaSq(cs.v1, cs.v2, cs.v0)
    /\ AreaSign(<<0,0,0>>, <<1,0,0>>, <<0,1,0>>, <<0,0,1>>) = 1
DefTwo == cs.op = "from_two_points" =>
    LET c == TwoPointCentre(cs.a, cs.b) IN FracEq(Rad2(c, cs.a), Rad2(c, cs.b)) /\ FracEq(Rad2(c, cs.a), <<D2(cs.a, cs.b), 4>>)
DefThree == cs.op = "from_three_points" =>
    LET c == ThreePointCentre(cs.a, cs.b, cs.c)
    IN /\ FracEq(Rad2(c, cs.a), Rad2(c, cs.b)) /\ FracEq(Rad2(c, cs.a), Rad2(c, cs.c))         \* passes through the points
       /\ OnPlaneNP(c, Cross(VSub(cs.b, cs.a), VSub(cs.c, cs.a)), cs.a)                        \* centre in their plane
DefFour == cs.op = "from_four_points" =>
    LET c == FourPointCentre(cs.a, cs.b, cs.c, cs.d)
    IN FracEq(Rad2(c, cs.a), Rad2(c, cs.b)) /\ FracEq(Rad2(c, cs.a), Rad2(c, cs.c)) /\ FracEq(Rad2(c, cs.a), Rad2(c, cs.d))
DefExtend == cs.op = "extend" =>
    IF cs.d <= cs.r THEN TRUE
    ELSE LET c2 == ExtendCentre(cs.c, cs.r, cs.x, cs.d)
             nr2 == <<(cs.r + cs.d) * (cs.r + cs.d), 4>>
         IN /\ FracEq(Rad2(c2, cs.x), nr2)                                                    \* the point is on the new sphere
            \* the old sphere is inside and touches: |c2 - c| = new radius - r, i.e. |c2 - c|^2 = ((d - r)/2)^2
            /\ FracEq(Rad2(c2, cs.c), <<(cs.d - cs.r) * (cs.d - cs.r), 4>>)

Expected ==
    CASE cs.op = "project_onto" -> [pt |-> ProjectOnto(cs.n, cs.p, cs.x)]
      [] cs.op = "project_onto_intersection" -> [pt |-> ProjectOntoIntersection(cs.n1, cs.p1, cs.n2, cs.p2, cs.x)]
      [] cs.op = "intersect_planes" -> [pt |-> Intersect3(cs.n0, cs.p0, cs.n1, cs.p1, cs.n2, cs.p2)]
      [] cs.op = "signed_volume_tet" -> [six |-> SixVol(cs.v0, cs.v1, cs.v2, cs.v3)]
      [] cs.op = "signed_area_tri" -> [foursq |-> FourAreaSq(cs.v0, cs.v1, cs.v2), sign |-> AreaSign(cs.v0, cs.v1, cs.v2, cs.t)]
      [] cs.op = "from_two_points" -> [pt |-> TwoPointCentre(cs.a, cs.b), r2 |-> Rad2(TwoPointCentre(cs.a, cs.b), cs.a)]
      [] cs.op = "from_three_points" -> [pt |-> ThreePointCentre(cs.a, cs.b, cs.c), r2 |-> Rad2(ThreePointCentre(cs.a, cs.b, cs.c), cs.a)]
      [] cs.op = "from_four_points" -> [pt |-> FourPointCentre(cs.a, cs.b, cs.c, cs.d), r2 |-> Rad2(FourPointCentre(cs.a, cs.b, cs.c, cs.d), cs.a)]
      [] cs.op = "extend" -> IF cs.d <= cs.r THEN [pt |-> HPoint(cs.c), r2 |-> <<cs.r * cs.r, 1>>]
                             ELSE [pt |-> ExtendCentre(cs.c, cs.r, cs.x, cs.d), r2 |-> <<(cs.r + cs.d) * (cs.r + cs.d), 4>>]
CaseHash == LET s == ToString(cs) IN Len(s)
EmitHelp == Emit => PrintT(<<"HELP", ToJson([case |-> cs, expected |-> Expected])>>)
=============================================================================
