------------------------------- MODULE VCycle -------------------------------
(***************************************************************************)
(* M-cycle: the boundary cycle of the removed dual disc, a line-by-line     *)
(* transcription of SimpleCycle (simple_cycle.rs).                          *)
(* A cycle is a record [ptrs, start, len]: ptrs is a successor array over   *)
(* plane indices (1-based here), ptrs[i] = i meaning "i is not on the       *)
(* cycle".                                                                  *)
(***************************************************************************)
EXTENDS Integers, Sequences, FiniteSets

CyNew(cap) == [ptrs |-> [i \in 1..cap |-> i], start |-> 1, len |-> 0]          \* :8-14
CyGrow(cy) == [cy EXCEPT !.ptrs = Append(@, Len(@) + 1)]                       \* :16-18
CyContains(cy, i) == cy.ptrs[i] # i                                            \* :41-43

\* init (:20-39): walk the old cycle from start for len steps resetting the pointers, then a -> b -> c -> a
RECURSIVE CyReset(_, _, _)
CyReset(ptrs, cur, k) == IF k = 0 THEN ptrs ELSE CyReset([ptrs EXCEPT ![cur] = cur], ptrs[cur], k - 1)
CyInit(cy, a, b, c) ==
    LET p0 == CyReset(cy.ptrs, cy.start, cy.len)
    IN [ptrs |-> [p0 EXCEPT ![a] = b, ![b] = c, ![c] = a], start |-> a, len |-> 3]

\* try_extend (:45-79).  `contained` is evaluated once, before the loop over the three rotations.
Rot(tri, i) == <<tri[((i - 1) % 3) + 1], tri[(i % 3) + 1], tri[((i + 1) % 3) + 1]>>     \* i = 1..3: <<tri[i], tri[j], tri[k]>>
CyTryAt(cy, tri, i) ==
    LET x == Rot(tri, i)[1]  y == Rot(tri, i)[2]  z == Rot(tri, i)[3]      \* tri[i], tri[j], tri[k]
    IN IF ~CyContains(cy, x) /\ CyContains(cy, y) /\ CyContains(cy, z) /\ cy.ptrs[z] = y
       THEN \*      A                                       A
            \*     / \     +                     =         / \
            \*    B - C       - E - B - C - D -     - E - B   C - D -
            [ok |-> TRUE, cy |-> [cy EXCEPT !.ptrs = [@ EXCEPT ![z] = x, ![x] = y], !.len = @ + 1]]
       ELSE IF CyContains(cy, x) /\ CyContains(cy, y) /\ CyContains(cy, z) /\ cy.ptrs[z] = y /\ cy.ptrs[y] = x
       THEN \*      A       - D - A             - D - A
            \*     / \   +       /           =         \
            \*    B - C         B - C - E -             C - E -
            [ok |-> TRUE, cy |-> [ptrs |-> [cy.ptrs EXCEPT ![z] = x, ![y] = y],
                                  start |-> IF cy.start = y THEN x ELSE cy.start,
                                  len |-> cy.len - 1]]
       ELSE [ok |-> FALSE, cy |-> cy]
CyTryExtend(cy, tri) ==
    IF CyTryAt(cy, tri, 1).ok THEN CyTryAt(cy, tri, 1)
    ELSE IF CyTryAt(cy, tri, 2).ok THEN CyTryAt(cy, tri, 2)
    ELSE CyTryAt(cy, tri, 3)

\* iter().take(k) (:81-100)
RECURSIVE CyTake(_, _, _)
CyTake(cy, cur, k) == IF k = 0 THEN <<>> ELSE <<cur>> \o CyTake(cy, cy.ptrs[cur], k - 1)
CySeq(cy) == CyTake(cy, cy.start, cy.len)
CyEdges(cy) == LET s == CyTake(cy, cy.start, cy.len + 1) IN {<<s[k], s[k + 1]>> : k \in 1..cy.len}

\* well-formedness: following the pointers from start returns to start after exactly len steps,
\* visiting len distinct elements; everything else points to itself
CyWellFormed(cy) ==
    LET s == CyTake(cy, cy.start, cy.len + 1)
    IN /\ cy.len >= 3
       /\ s[cy.len + 1] = cy.start
       /\ Cardinality({s[k] : k \in 1..cy.len}) = cy.len
       /\ \A i \in 1..Len(cy.ptrs) : (i \notin {s[k] : k \in 1..cy.len}) => cy.ptrs[i] = i
=============================================================================
