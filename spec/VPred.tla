------------------------------- MODULE VPred -------------------------------
(***************************************************************************)
(* The exact in-sphere predicate (geometry.rs:232-314) on integer grid      *)
(* points, and the integer grid itself (boundary.rs).                       *)
(*                                                                         *)
(* InSphereRef is the DEFINITION the property states: for a positively      *)
(* oriented tetrahedron (a,b,c,d) the value is negative iff v is strictly   *)
(* inside the circumsphere, zero iff on it - computed from the rational     *)
(* circumcentre (Cramer) and the orientation determinant.                   *)
(* InSphereCofactor is a line-by-line transcription of the code: differences *)
(* to a, lifted coordinate norm2, the det2x2 / det3x3 macros and the four    *)
(* expansion steps along the last column with their signs.                   *)
(* TLC checks that they agree on every 5-tuple of a small grid; the tuples   *)
(* (with the sign, and for co-spherical tuples the first-order data L(e),    *)
(* m4 that transport the truth to +-1 perturbations on the 52-bit grid) are  *)
(* replayed into the real predicate for every backend.                       *)
(***************************************************************************)
EXTENDS VGeom, TLC

---------------------------------------------------------------------------
(* definition *)
Orient(a, b, c, d) == Det3(VSub(b, a), VSub(c, a), VSub(d, a))

\* circumcentre of a,b,c,d: intersection of the three bisector planes 2(p-a).x = |p|^2-|a|^2
CircumCentre(a, b, c, d) ==
    Vtx(Plane(VScale(2, VSub(b, a)), N2(b) - N2(a)),
        Plane(VScale(2, VSub(c, a)), N2(c) - N2(a)),
        Plane(VScale(2, VSub(d, a)), N2(d) - N2(a)))

\* sign of |v-O|^2 - |a-O|^2 for O = X/W, W > 0:  W(|v|^2-|a|^2) - 2 (v-a).X
InsideVal(a, b, c, d, v) ==
    LET o == CircumCentre(a, b, c, d)
    IN o[4] * (N2(v) - N2(a)) - 2 * Dot(VSub(v, a), HXYZ(o))

InSphereRef(a, b, c, d, v) == Sign(InsideVal(a, b, c, d, v)) * Sign(Orient(a, b, c, d))

---------------------------------------------------------------------------
(* transcription of in_sphere_test_exact *)
Lift(p, a) == LET u == VSub(p, a) IN <<u[1], u[2], u[3], u[1]*u[1] + u[2]*u[2] + u[3]*u[3]>>    \* big_int!
Det2(a, b, c, d) == a * d - b * c                                                                  \* big_int_det2x2!
Det3x3(a0, a1, a2, b0, b1, b2, c0, c1, c2) ==                                                      \* big_int_det3x3!
    a0 * Det2(b1, b2, c1, c2) - a1 * Det2(b0, b2, c0, c2) + a2 * Det2(b0, b1, c0, c1)
CofactorDet(a, b0, c0, d0, v0) ==
    LET b == Lift(b0, a)  c == Lift(c0, a)  d == Lift(d0, a)  v == Lift(v0, a)
        s1 == Det3x3(b[2], c[2], d[2], b[3], c[3], d[3], b[4], c[4], d[4])      \* Step 1: determinant -= v[0] * det
        s2 == Det3x3(b[1], c[1], d[1], b[3], c[3], d[3], b[4], c[4], d[4])      \* Step 2: determinant += v[1] * det
        s3 == Det3x3(b[1], c[1], d[1], b[2], c[2], d[2], b[4], c[4], d[4])      \* Step 3: determinant -= v[2] * det
        s4 == Det3x3(b[1], c[1], d[1], b[2], c[2], d[2], b[3], c[3], d[3])      \* Step 4: determinant += v[3] * det
    IN 0 - v[1] * s1 + v[2] * s2 - v[3] * s3 + v[4] * s4
InSphereCofactor(a, b, c, d, v) == Sign(CofactorDet(a, b, c, d, v))

---------------------------------------------------------------------------
(* first-order data for co-spherical tuples: after scaling all points by k > 0 and moving v by the
   unit step e the determinant is  k^3 * ( k * L(e) + m4 )  with
       L(e) = - e1 s1 + e2 s2 - e3 s3 + 2 m4 (v-a).e      m4 = s4 = det of the spatial parts *)
FirstOrder(a, b0, c0, d0, v0, e) ==
    LET b == Lift(b0, a)  c == Lift(c0, a)  d == Lift(d0, a)  v == Lift(v0, a)
        s1 == Det3x3(b[2], c[2], d[2], b[3], c[3], d[3], b[4], c[4], d[4])
        s2 == Det3x3(b[1], c[1], d[1], b[3], c[3], d[3], b[4], c[4], d[4])
        s3 == Det3x3(b[1], c[1], d[1], b[2], c[2], d[2], b[4], c[4], d[4])
        m4 == Det3x3(b[1], c[1], d[1], b[2], c[2], d[2], b[3], c[3], d[3])
    IN [L |-> 0 - e[1] * s1 + e[2] * s2 - e[3] * s3 + 2 * m4 * (v[1]*e[1] + v[2]*e[2] + v[3]*e[3]), m4 |-> m4]
\* the definition, evaluated directly on the scaled and perturbed tuple (small k only: integers are 32 bit)
PerturbedRef(a, b, c, d, v, e, k) == InSphereRef(VScale(k, a), VScale(k, b), VScale(k, c), VScale(k, d), VAdd(VScale(k, v), e))
UnitSteps == {<<1,0,0>>, <<-1,0,0>>, <<0,1,0>>, <<0,-1,0>>, <<0,0,1>>, <<0,0,-1>>}

---------------------------------------------------------------------------
(* the grid domain (boundary.rs:12-47): positions are mapped affinely onto [1,2) x 2^52; the domain is
   [lo - 1.5 W, lo + 2.5 W) per axis where [lo, lo+W] is the initial box of the cell (tripled when periodic).
   In doubled integer coordinates: 2x in [2 lo - 3 W, 2 lo + 5 W). *)
InGridDomain(x, lo, hi) == \A k \in 1..3 : LET W == hi[k] - lo[k]
                                          IN 2 * x[k] >= 2 * lo[k] - 3 * W /\ 2 * x[k] < 2 * lo[k] + 5 * W
=============================================================================
