------------------------------ MODULE VMeasure ------------------------------
(***************************************************************************)
(* Exact measures of a lattice cell and the two signed decompositions the   *)
(* integrals of meshless_voronoi are fed with (convex_cell.rs:140-300,      *)
(* integrals.rs, geometry.rs signed_volume_tet / signed_area_tri).          *)
(*                                                                         *)
(* Everything below is a RATIONAL function of the lattice input: vertices   *)
(* X / W, feet of the generator on the planes, projections of the generator *)
(* on the intersection lines of two planes, determinants.  TLC has 32-bit   *)
(* integers, so the rational identities are evaluated in the prime fields   *)
(* Z/p for several primes p < 46341 (every product of two residues stays    *)
(* below 2^31).  A rational identity that holds is true modulo every prime  *)
(* that divides none of its denominators - so the check can never raise a   *)
(* false alarm -, and an identity that fails survives one random prime with *)
(* probability ~ 1/p, all of Primes together with probability < 1e-13.      *)
(* (A prime that happens to divide a denominator is skipped for that cell.) *)
(*                                                                         *)
(* Decomposition without face information (DecompositionWithoutFaces):      *)
(* for every vertex v with dual (p0, p1, p2) the six tetrahedra with apex g  *)
(*     (F_i, E_{i-1,i}, v)  and  (E_{i,i+1}, F_i, v)     attributed to p_i    *)
(* F_i = foot of g on plane p_i, E_{i,j} = projection of g on p_i /\ p_j.     *)
(* Decomposition with faces (DecompositionWithFaces): per face (v_0 .. v_k-1)*)
(* the fan (v_0, v_i, v_i+1), i = 1 .. k-2, attributed to the face's plane.  *)
(* A tetrahedron (a, b, c) (vectors from g) contributes                      *)
(*   6 vol      = -det(a, b, c)                  (signed_volume_tet)         *)
(*   24 M1      = 6 vol * (a + b + c)            (first moments about g)     *)
(*   120 M2_ij  = 6 vol * (a_i a_j + b_i b_j + c_i c_j + s_i s_j), s = a+b+c *)
(*   2 area . n = ((b - a) x (c - a)) . n_p      (signed area against n_p)   *)
(*   6 A1       = 2 area . n * (a + b + c)       (first moments of the face) *)
(***************************************************************************)
EXTENDS VGeom, VFaces

Primes == <<46337, 46327, 46309>>

---------------------------------------------------------------------------
(* arithmetic in Z/P *)
Mo(P, x) == ((x % P) + P) % P
MAdd(P, a, b) == (a + b) % P
MSub(P, a, b) == (a - b + P) % P
MMul(P, a, b) == (a * b) % P
RECURSIVE MPow(_, _, _)
MPow(P, a, e) == IF e = 0 THEN 1
                 ELSE LET h == MPow(P, a, e \div 2)  hh == (h * h) % P
                      IN IF e % 2 = 1 THEN (hh * a) % P ELSE hh
MInv(P, a) == MPow(P, a, P - 2)

MV(P, u) == <<Mo(P, u[1]), Mo(P, u[2]), Mo(P, u[3])>>
MVAdd(P, u, v) == <<MAdd(P, u[1], v[1]), MAdd(P, u[2], v[2]), MAdd(P, u[3], v[3])>>
MVSub(P, u, v) == <<MSub(P, u[1], v[1]), MSub(P, u[2], v[2]), MSub(P, u[3], v[3])>>
MVScale(P, k, u) == <<MMul(P, k, u[1]), MMul(P, k, u[2]), MMul(P, k, u[3])>>
MDot(P, u, v) == MAdd(P, MAdd(P, MMul(P, u[1], v[1]), MMul(P, u[2], v[2])), MMul(P, u[3], v[3]))
MCross(P, u, v) == << MSub(P, MMul(P, u[2], v[3]), MMul(P, u[3], v[2])),
                      MSub(P, MMul(P, u[3], v[1]), MMul(P, u[1], v[3])),
                      MSub(P, MMul(P, u[1], v[2]), MMul(P, u[2], v[1])) >>
MDet3(P, a, b, c) == MDot(P, a, MCross(P, b, c))
MZero3 == <<0, 0, 0>>

---------------------------------------------------------------------------
(* the accumulated integrals of one plane: a record of residues *)
\* m2 = <<xx, yy, zz, xy, xz, yz>>
ZeroAcc == [v |-> 0, m1 |-> MZero3, m2 |-> <<0, 0, 0, 0, 0, 0>>, a |-> 0, a1 |-> MZero3, av |-> MZero3]
Sq6(P, u, w) == <<MMul(P, u[1], w[1]), MMul(P, u[2], w[2]), MMul(P, u[3], w[3]),
                  MMul(P, u[1], w[2]), MMul(P, u[1], w[3]), MMul(P, u[2], w[3])>>
Add6(P, x, y) == [k \in 1..6 |-> MAdd(P, x[k], y[k])]
Scale6(P, s, x) == [k \in 1..6 |-> MMul(P, s, x[k])]

\* contribution of the tetrahedron with apex g and base (a, b, c) (vectors from g, residues), plane normal n
TetAcc(P, a, b, c, n) ==
    LET v6 == MSub(P, 0, MDet3(P, a, b, c))
        s  == MVAdd(P, MVAdd(P, a, b), c)
        q  == Add6(P, Add6(P, Sq6(P, a, a), Sq6(P, b, b)), Add6(P, Sq6(P, c, c), Sq6(P, s, s)))
        av == MCross(P, MVSub(P, b, a), MVSub(P, c, a))
        an == MDot(P, av, n)
    IN [v |-> v6, m1 |-> MVScale(P, v6, s), m2 |-> Scale6(P, v6, q), a |-> an, a1 |-> MVScale(P, an, s), av |-> av]
AccAdd(P, x, y) == [v |-> MAdd(P, x.v, y.v), m1 |-> MVAdd(P, x.m1, y.m1), m2 |-> Add6(P, x.m2, y.m2),
                    a |-> MAdd(P, x.a, y.a), a1 |-> MVAdd(P, x.a1, y.a1), av |-> MVAdd(P, x.av, y.av)]

---------------------------------------------------------------------------
(* geometry of one cell in Z/P.  g: generator (integers), pl: sequence of planes [n, d] (integers, inward normals), *)
(* vs: vertex triples in storage order, hs: the homogeneous points of the vertices, aligned with vs.               *)
PlaneS(g, p) == p.d - Dot(p.n, g)                         \* n.x - d at x = g, negated: <= 0 for a generator inside
\* foot of g on plane p, relative to g:  n s / |n|^2
Foot(P, g, p) == MVScale(P, MMul(P, Mo(P, PlaneS(g, p)), MInv(P, Mo(P, N2(p.n)))), MV(P, p.n))
\* projection of g on the line p /\ q, relative to g:  a n_p + b n_q  with
\*   a = (s_p N_q - s_q M) / D,  b = (s_q N_p - s_p M) / D,  M = n_p.n_q,  D = N_p N_q - M^2 = |n_p x n_q|^2
LineDen(P, p, q) == MSub(P, MMul(P, Mo(P, N2(p.n)), Mo(P, N2(q.n))), MMul(P, Mo(P, Dot(p.n, q.n)), Mo(P, Dot(p.n, q.n))))
LineProj(P, g, p, q) ==
    LET sp == Mo(P, PlaneS(g, p))  sq == Mo(P, PlaneS(g, q))
        Np == Mo(P, N2(p.n))  Nq == Mo(P, N2(q.n))  M == Mo(P, Dot(p.n, q.n))
        iD == MInv(P, LineDen(P, p, q))
        a  == MMul(P, MSub(P, MMul(P, sp, Nq), MMul(P, sq, M)), iD)
        b  == MMul(P, MSub(P, MMul(P, sq, Np), MMul(P, sp, M)), iD)
    IN MVAdd(P, MVScale(P, a, MV(P, p.n)), MVScale(P, b, MV(P, q.n)))
\* vertex relative to g:  (X - W g) / W
Rel(P, g, h) == MVScale(P, MInv(P, Mo(P, h[4])), MV(P, VSub(HXYZ(h), VScale(h[4], g))))

\* a prime is usable for a cell when it divides none of the denominators
PrimeOK(P, pl, vs, hs) ==
    /\ \A k \in 1..Len(vs) : Mo(P, hs[k][4]) # 0
    /\ \A k \in 1..Len(vs) : \A i \in 1..3 :
          /\ Mo(P, N2(pl[vs[k][i]].n)) # 0
          /\ LineDen(P, pl[vs[k][i]], pl[vs[k][(i % 3) + 1]]) # 0

---------------------------------------------------------------------------
(* the decomposition without faces: accumulated per plane.  rel = the vertices relative to g (residues), ft = feet *)
\* the six tetrahedra of a vertex with triple t at v, restricted to plane position i
VertexAcc(P, g, pl, ft, t, v, i) ==
    LET pi_  == pl[t[i]]
        prev == pl[t[((i + 1) % 3) + 1]]        \* dual[(i - 1) mod 3]
        nxt  == pl[t[(i % 3) + 1]]              \* dual[(i + 1) mod 3]
        F    == ft[t[i]]
        Ep   == LineProj(P, g, prev, pi_)
        En   == LineProj(P, g, pi_, nxt)
        n    == MV(P, pi_.n)
    IN AccAdd(P, TetAcc(P, F, Ep, v, n), TetAcc(P, En, F, v, n))
RECURSIVE WoAccFrom(_, _, _, _, _, _, _, _)
WoAccFrom(P, g, pl, ft, vs, rel, p, k) ==
    IF k > Len(vs) THEN ZeroAcc
    ELSE LET i == PosIn(vs[k], p)
             rest == WoAccFrom(P, g, pl, ft, vs, rel, p, k + 1)
         IN IF i = 0 THEN rest ELSE AccAdd(P, VertexAcc(P, g, pl, ft, vs[k], rel[k], i), rest)

(* the decomposition with faces: the fan of the face of plane p *)
RECURSIVE FanFrom(_, _, _, _, _)
FanFrom(P, rel, f, n, i) ==
    IF i > Len(f) - 1 THEN ZeroAcc
    ELSE AccAdd(P, TetAcc(P, rel[f[1]], rel[f[i]], rel[f[i + 1]], n), FanFrom(P, rel, f, n, i + 1))

\* both decompositions of a cell, tabulated per plane:  [wo |-> [p -> acc], wf |-> [p -> acc]]
UsedBy(vs) == UNION {{vs[k][1], vs[k][2], vs[k][3]} : k \in 1..Len(vs)}
Tables(P, g, pl, vs, hs) ==
    LET rel == [k \in 1..Len(vs) |-> Rel(P, g, hs[k])]
        ft  == [p \in 1..Len(pl) |-> IF p \in UsedBy(vs) THEN Foot(P, g, pl[p]) ELSE MZero3]
    IN [wo |-> [p \in 1..Len(pl) |-> IF p \in UsedBy(vs) THEN WoAccFrom(P, g, pl, ft, vs, rel, p, 1) ELSE ZeroAcc],
        wf |-> [p \in 1..Len(pl) |-> LET f == FaceOf(vs, p)
                                     IN IF f = <<>> THEN ZeroAcc ELSE FanFrom(P, rel, f, MV(P, pl[p].n), 2)]]

---------------------------------------------------------------------------
(* identities *)
SameAcc(x, y) == x.v = y.v /\ x.m1 = y.m1 /\ x.m2 = y.m2 /\ x.a = y.a /\ x.a1 = y.a1 /\ x.av = y.av
RECURSIVE SumTab(_, _, _)
SumTab(P, tab, p) == IF p > Len(tab) THEN ZeroAcc ELSE AccAdd(P, tab[p], SumTab(P, tab, p + 1))

IdentitiesP(P, g, pl, vs, hs) ==
    PrimeOK(P, pl, vs, hs) =>
        LET T == Tables(P, g, pl, vs, hs)
        IN \* C14: per plane, both decompositions deliver the same volume, moments up to degree two, signed area, face
           \* moments and area vector
           /\ \A p \in 1..Len(pl) : SameAcc(T.wo[p], T.wf[p])
           \* every triangle fed for plane p lies in that plane: the area vector is parallel to n_p
           /\ \A p \in 1..Len(pl) : MCross(P, T.wo[p].av, MV(P, pl[p].n)) = MZero3
           \* C04: the surface is closed - the area vectors of all faces cancel
           /\ SumTab(P, T.wf, 1).av = MZero3
           \* the pyramid over face p with apex g: volume = area * height / 3 with height = -s_p / |n_p| and
           \* 2 area = (av . n_p) / |n_p| (faces are counter-clockwise about the inward normal):   v * N_p = - a * s_p
           /\ \A p \in 1..Len(pl) : MMul(P, T.wf[p].v, Mo(P, N2(pl[p].n))) = MSub(P, 0, MMul(P, T.wf[p].a, Mo(P, PlaneS(g, pl[p]))))
CellIdentities(g, pl, vs, hs) == \A k \in 1..Len(Primes) : IdentitiesP(Primes[k], g, pl, vs, hs)

\* residues of 6 * volume (with faces), one per prime; -1 marks a skipped prime
Vol6Residues(g, pl, vs, hs) ==
    [k \in 1..Len(Primes) |-> IF PrimeOK(Primes[k], pl, vs, hs) THEN SumTab(Primes[k], Tables(Primes[k], g, pl, vs, hs).wf, 1).v ELSE -1]
=============================================================================
