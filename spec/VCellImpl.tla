------------------------------ MODULE VCellImpl ------------------------------
(***************************************************************************)
(* Refinement of the abstract clip of VCell by what the code really does    *)
(* (C18): vertices are stored in a sequence, each as a plane triple in some  *)
(* rotation; clip_by_plane partitions the sequence by swapping clipped       *)
(* vertices to the tail (convex_cell.rs:392-430), compute_boundary           *)
(* (:487-507) greedily grows the boundary cycle of the removed dual disc     *)
(* from the first removed vertex, scanning the rest for the first triangle   *)
(* that SimpleCycle::try_extend accepts, and one new vertex (cur, next, p)   *)
(* is created per cycle edge (:444-459).                                     *)
(*                                                                         *)
(* ImplOK: for every reachable cell and every plane that may come next, for  *)
(* EVERY order of the removed vertices and the rotations of their triples,   *)
(* the scan never gets stuck, the cycle is well formed and its edges are     *)
(* exactly the declarative boundary VCell uses - so the result is the same   *)
(* polytope whatever the storage order.  The cycle object is reused between  *)
(* clips (init resets it), so it is carried as state (cyc).                  *)
(***************************************************************************)
EXTENDS VCell, VCycle

CONSTANTS MaxExhaustive,   \* removed sets up to this size: all orders
          AllRotUpTo       \* removed sets up to this size: all rotations of every triple (else of the first only)

VARIABLES cyc
ivars == <<vars, cyc>>

Swap(s, a, b) == IF a = b THEN s ELSE [s EXCEPT ![a] = s[b], ![b] = s[a]]
Rotations(t) == {t, <<t[2], t[3], t[1]>>, <<t[3], t[1], t[2]>>}

\* clip_by_plane's partition loop on a vertex sequence vs (1-based transcription):
\* while i <= num_v { if clipped(vs[i]) { swap(i, num_v); num_v -= 1 } else { i += 1 } }
RECURSIVE Partition(_, _, _, _)
Partition(vs, i, numv, T) ==                      \* T = the clipped triples
    IF i > numv THEN [vs |-> vs, numv |-> numv]
    ELSE IF vs[i] \in T THEN Partition(Swap(vs, i, numv), i, numv - 1, T)
    ELSE Partition(vs, i + 1, numv, T)

\* compute_boundary on the removed slice rs (sequence of triples as stored)
RECURSIVE ScanFrom(_, _, _)
ScanFrom(cy, rs, idx) == IF idx > Len(rs) THEN 0
                         ELSE IF CyTryExtend(cy, rs[idx]).ok THEN idx ELSE ScanFrom(cy, rs, idx + 1)
RECURSIVE GrowBoundary(_, _, _)
GrowBoundary(cy, rs, i) ==
    IF i > Len(rs) THEN [ok |-> TRUE, cy |-> cy]
    ELSE LET idx == ScanFrom(cy, rs, i)
         IN IF idx = 0 THEN [ok |-> FALSE, cy |-> cy]          \* "No suitable vertex found to extend boundary!"
            ELSE GrowBoundary(CyTryExtend(cy, rs[idx]).cy, Swap(rs, i, idx), i + 1)
ComputeBoundary(cy0, rs) == GrowBoundary(CyInit(cy0, rs[1][1], rs[1][2], rs[1][3]), rs, 2)

\* vertices created along iter().take(len + 1)
Created(cy, pi) == LET s == CyTake(cy, cy.start, cy.len + 1) IN [k \in 1..cy.len |-> <<s[k], s[k + 1], pi>>]

RECURSIVE Perms(_)
Perms(S) == IF S = {} THEN {<<>>} ELSE UNION {{<<x>> \o p : p \in Perms(S \ {x})} : x \in S}
\* a few orders for big removed sets: sorted, reversed, and every cyclic shift of the sorted order
RECURSIVE SortedSeq(_)
TKey(t) == 10000 * t[1] + 100 * t[2] + t[3]
SortedSeq(S) == IF S = {} THEN <<>> ELSE LET m == CHOOSE x \in S : \A y \in S : TKey(x) <= TKey(y) IN <<m>> \o SortedSeq(S \ {m})
CyclicShifts(s) == {[k \in 1..Len(s) |-> s[((k + d - 1) % Len(s)) + 1]] : d \in 0..Len(s) - 1}
Reverse(s) == [k \in 1..Len(s) |-> s[Len(s) + 1 - k]]
SomeOrders(S) == LET s == SortedSeq(S) IN CyclicShifts(s) \cup CyclicShifts(Reverse(s))

\* all storage variants of the removed set T (set of canonical triples) that are checked
RECURSIVE RotAll(_)
RotAll(s) == IF s = <<>> THEN {<<>>} ELSE {<<r>> \o rest : r \in Rotations(Head(s)), rest \in RotAll(Tail(s))}
Arrangements(T) ==
    LET orders == IF Cardinality(T) <= MaxExhaustive THEN Perms(T) ELSE SomeOrders(T)
    IN IF Cardinality(T) <= AllRotUpTo
       THEN UNION {RotAll(o) : o \in orders}
       ELSE UNION {{[o EXCEPT ![1] = r] : r \in Rotations(o[1])} : o \in orders}

\* the refinement obligation for one clip: removed vertex records R, new plane index pi, cycle object cy0
ClipRefines(R, pi, cy0) ==
    LET T == {v.t : v \in R}
        B == BoundaryEdges(R)
    IN \A rs \in Arrangements(T) :
          LET r == ComputeBoundary(cy0, rs)
          IN /\ r.ok                                          \* NeverStuck
             /\ CyWellFormed(r.cy)
             /\ r.cy.len = Cardinality(B)                     \* LenMatches
             /\ CyEdges(r.cy) = B                             \* CycleIsBoundary
             /\ {Canon(Created(r.cy, pi)[k]) : k \in 1..r.cy.len} = {Canon(<<e[1], e[2], pi>>) : e \in B}    \* Refines

\* the partition loop moves exactly the clipped vertices to the tail, whatever the order
PartitionOK(R) ==
    LET all == SortedSeq({v.t : v \in verts})
        T == {v.t : v \in R}
    IN \A vs \in CyclicShifts(all) \cup CyclicShifts(Reverse(all)) :
          LET p == Partition(vs, 1, Len(vs), T)
          IN /\ {p.vs[k] : k \in 1..p.numv} = {v.t : v \in verts} \ T
             /\ {p.vs[k] : k \in p.numv + 1..Len(vs)} = T

NextClips == IF pc = "visit" /\ Cands \ visited # {}
             THEN {q \in MinUnvisited : \E v \in verts : CmpRad(4, v.h, Own, Act, CandD2(q)) >= 0}
             ELSE {}
ImplOK == \A q \in NextClips :
             LET R == StrictOut(CandPlane(q))
             IN R # {} => ClipRefines(R, Len(planes) + 1, CyGrow(cyc)) /\ PartitionOK(R)

\* the machine: VCell's, plus the cycle object left behind by each cut (computed for the sorted storage order)
IInit == Init /\ cyc = CyNew(6)
INext == /\ Visit
         /\ cyc' = IF Len(planes') > Len(planes)
                   THEN ComputeBoundary(CyGrow(cyc), SortedSeq({v.t : v \in verts \ verts'})).cy
                   ELSE cyc
ISpec == IInit /\ [][INext]_ivars
CycleCapacity == Len(cyc.ptrs) = Len(planes)

\* cases for replay into the implementation (one per reachable cell and next plane that cuts)
ClipCases == {[ inp    |-> inp, cell |-> c - 1,
                planes |-> [i \in 1..Len(planes) - 6 |-> [j |-> planes[i + 6].j - 1, s |-> planes[i + 6].s]],
                verts  |-> SortedSeq({<<v.t[1] - 1, v.t[2] - 1, v.t[3] - 1>> : v \in verts}),
                cand   |-> [j |-> q[1] - 1, s |-> q[2]],
                nrem   |-> Cardinality(StrictOut(CandPlane(q))),
                ties   |-> Cardinality(OnPlane(CandPlane(q))),
                expect |-> LET R == StrictOut(CandPlane(q))
                               pi == Len(planes) + 1
                           IN {<<t[1] - 1, t[2] - 1, t[3] - 1>> : t \in ({v.t : v \in verts \ R} \cup {Canon(<<e[1], e[2], pi>>) : e \in BoundaryEdges(R)})} ]
              : q \in {x \in NextClips : StrictOut(CandPlane(x)) # {}}}
=============================================================================
