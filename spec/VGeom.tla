------------------------------- MODULE VGeom -------------------------------
(***************************************************************************)
(* Exact integer geometry for the meshless Voronoi model.                  *)
(*                                                                         *)
(* Everything the cell builder of meshless_voronoi asks of geometry is an  *)
(* integer determinant when generators, box corners and periods are taken  *)
(* from an integer lattice.  TLC has exact 32-bit integers and aborts on   *)
(* overflow (never wraps), so on lattice inputs every operator below is an *)
(* exact oracle.                                                           *)
(*                                                                         *)
(* Conventions (the same as the code):                                     *)
(*   - a plane is a record [n |-> <<a,b,c>>, d |-> d]; the half-space it   *)
(*     bounds is { x : n.x >= d } -- normals point INTO the cell           *)
(*     (half_space.rs / convex_cell.rs: "Their normals are pointed         *)
(*     inwards");                                                          *)
(*   - a point is a homogeneous 4-tuple <<X,Y,Z,W>>, W > 0, gcd-normalised,*)
(*     meaning (X/W, Y/W, Z/W).                                            *)
(***************************************************************************)
EXTENDS Integers, Sequences, FiniteSets

Abs(x)  == IF x < 0 THEN -x ELSE x
Sign(x) == IF x < 0 THEN -1 ELSE IF x > 0 THEN 1 ELSE 0
Max2(a, b) == IF a >= b THEN a ELSE b
Min2(a, b) == IF a <= b THEN a ELSE b

RECURSIVE Gcd(_, _)
Gcd(a, b) == IF b = 0 THEN a ELSE Gcd(b, a % b)      \* a, b >= 0

SetMin(S) == CHOOSE x \in S : \A y \in S : x <= y
SetMax(S) == CHOOSE x \in S : \A y \in S : x >= y

---------------------------------------------------------------------------
(* vectors: 3-tuples of integers *)
Dot(u, v)   == u[1]*v[1] + u[2]*v[2] + u[3]*v[3]
VAdd(u, v)  == <<u[1]+v[1], u[2]+v[2], u[3]+v[3]>>
VSub(u, v)  == <<u[1]-v[1], u[2]-v[2], u[3]-v[3]>>
VScale(k, u) == <<k*u[1], k*u[2], k*u[3]>>
VMul(u, v)  == <<u[1]*v[1], u[2]*v[2], u[3]*v[3]>>     \* componentwise
Cross(u, v) == << u[2]*v[3] - u[3]*v[2],
                  u[3]*v[1] - u[1]*v[3],
                  u[1]*v[2] - u[2]*v[1] >>
Det3(a, b, c) == Dot(a, Cross(b, c))
N2(u) == Dot(u, u)
D2(u, v) == N2(VSub(u, v))

Gcd3(u) == Gcd(Gcd(Abs(u[1]), Abs(u[2])), Abs(u[3]))

---------------------------------------------------------------------------
(* planes *)
Plane(n, d) == [n |-> n, d |-> d]

\* Reduce a plane by the gcd of its coefficients (keeps magnitudes small).
PNorm(p) == LET g == Gcd(Gcd3(p.n), Abs(p.d))
            IN IF g <= 1 THEN p ELSE Plane(<<p.n[1] \div g, p.n[2] \div g, p.n[3] \div g>>, p.d \div g)

\* Bisector half-space of g against q: points at least as close to g as to q.
\*   |x-g|^2 <= |x-q|^2   <=>   2(g-q).x >= |g|^2 - |q|^2
\* (the code: n = (g-q)/|g-q|, p = (g+q)/2 -- the same plane, same side).
Bis(g, q) == PNorm(Plane(VScale(2, VSub(g, q)), N2(g) - N2(q)))

\* Axis unit vector
Axis(k) == [i \in 1..3 |-> IF i = k THEN 1 ELSE 0]

\* Wall w of the box [lo, hi] in the code's order (boundary.rs:34-41):
\*   1: x >= lo.x   2: x <= hi.x   3: y >= lo.y   4: y <= hi.y   5: z >= lo.z   6: z <= hi.z
WallAxis(w) == (w + 1) \div 2
WallIsLow(w) == w % 2 = 1
Wall(w, lo, hi) ==
    LET k == WallAxis(w)
    IN IF WallIsLow(w) THEN Plane(Axis(k), lo[k])
                       ELSE Plane(VScale(-1, Axis(k)), -hi[k])

\* Mirror image of g through wall w (what HalfSpace::right_loc returns for a wall:
\* 2 * projection - g).
Mirror(g, w, lo, hi) ==
    LET k == WallAxis(w)
        c == IF WallIsLow(w) THEN lo[k] ELSE hi[k]
    IN [i \in 1..3 |-> IF i = k THEN 2*c - g[i] ELSE g[i]]

---------------------------------------------------------------------------
(* homogeneous points *)
HNorm(h) == LET s == IF h[4] < 0 THEN -1 ELSE 1
                g == Gcd(Gcd(Abs(h[1]), Abs(h[2])), Gcd(Abs(h[3]), Abs(h[4])))
            IN <<(s*h[1]) \div g, (s*h[2]) \div g, (s*h[3]) \div g, (s*h[4]) \div g>>

HPoint(g) == <<g[1], g[2], g[3], 1>>
HXYZ(h) == <<h[1], h[2], h[3]>>

\* Intersection of three planes by Cramer's rule (geometry.rs intersect_planes):
\*   x = ( d0 (n1 x n2) + d1 (n2 x n0) + d2 (n0 x n1) ) / det(n0,n1,n2)
PlanesIndependent(p, q, r) == Det3(p.n, q.n, r.n) # 0
Vtx(p, q, r) ==
    LET w == Det3(p.n, q.n, r.n)
        x == VAdd(VAdd(VScale(p.d, Cross(q.n, r.n)), VScale(q.d, Cross(r.n, p.n))),
                  VScale(r.d, Cross(p.n, q.n)))
    IN HNorm(<<x[1], x[2], x[3], w>>)

\* Sign of the position of point h relative to plane p: > 0 strictly inside the half-space,
\* 0 on the plane, < 0 strictly outside (= "clipped", HalfSpace::clip < 0).
SideVal(h, p) == Dot(p.n, HXYZ(h)) - p.d * h[4]
Side(h, p) == Sign(SideVal(h, p))

---------------------------------------------------------------------------
(* Overflow-free comparison of products of naturals: little-endian base-10^4 digit     *)
(* sequences.  Needed for the safety-radius comparison, which squares vertex numerators. *)
BB == 10000
RECURSIVE BigOf(_)
BigOf(n) == IF n = 0 THEN <<>> ELSE <<n % BB>> \o BigOf(n \div BB)        \* n >= 0

RECURSIVE BigAddC(_, _, _)
BigAddC(a, b, c) ==
    IF a = <<>> /\ b = <<>> THEN (IF c = 0 THEN <<>> ELSE <<c>>)
    ELSE LET x == IF a = <<>> THEN 0 ELSE Head(a)
             y == IF b = <<>> THEN 0 ELSE Head(b)
             s == x + y + c
         IN <<s % BB>> \o BigAddC(IF a = <<>> THEN <<>> ELSE Tail(a),
                                  IF b = <<>> THEN <<>> ELSE Tail(b), s \div BB)
BigAdd(a, b) == BigAddC(a, b, 0)

RECURSIVE BigMulDigit(_, _, _)
BigMulDigit(a, k, c) ==                       \* a * k + c, 0 <= k < BB
    IF a = <<>> THEN BigOf(c)
    ELSE LET s == Head(a) * k + c IN <<s % BB>> \o BigMulDigit(Tail(a), k, s \div BB)

RECURSIVE BigMul(_, _)
BigMul(a, b) == IF b = <<>> THEN <<>>
                ELSE BigAdd(BigMulDigit(a, Head(b), 0), <<0>> \o BigMul(a, Tail(b)))

RECURSIVE BigTrim(_)
BigTrim(a) == IF a # <<>> /\ a[Len(a)] = 0 THEN BigTrim(SubSeq(a, 1, Len(a)-1)) ELSE a

RECURSIVE BigCmpSameLen(_, _, _)
BigCmpSameLen(a, b, i) == IF i = 0 THEN 0
                          ELSE IF a[i] < b[i] THEN -1
                          ELSE IF a[i] > b[i] THEN 1 ELSE BigCmpSameLen(a, b, i-1)
BigCmp(a0, b0) == LET a == BigTrim(a0)  b == BigTrim(b0)
                  IN IF Len(a) < Len(b) THEN -1 ELSE IF Len(a) > Len(b) THEN 1
                     ELSE BigCmpSameLen(a, b, Len(a))

SmallN == 30000      \* products of two naturals below SmallN stay below 9e8
\* Sign of (a*b - c*d) for naturals a, b, c, d without overflow.
CmpProd(a, b, c, d) ==
    IF a < SmallN /\ b < SmallN /\ c < SmallN /\ d < SmallN
    THEN Sign(a*b - c*d)
    ELSE BigCmp(BigMul(BigOf(a), BigOf(b)), BigMul(BigOf(c), BigOf(d)))

\* Squared norm of an integer vector as a big natural.
BigN2(u) == BigAdd(BigAdd(BigMul(BigOf(Abs(u[1])), BigOf(Abs(u[1]))),
                          BigMul(BigOf(Abs(u[2])), BigOf(Abs(u[2])))),
                   BigMul(BigOf(Abs(u[3])), BigOf(Abs(u[3]))))

\* Sign of  k * |h - g|^2  -  dd     where h is a homogeneous point (denominator W),
\* g an integer point, restricted to the active axes given by the 0/1 vector act, k a small
\* natural, dd a natural:     k * |X - W g|^2  ?  dd * W^2
CmpRad(k, h, g, act, dd) ==
    LET u == VMul(act, VSub(HXYZ(h), VScale(h[4], g)))
        m == Max2(Max2(Abs(u[1]), Abs(u[2])), Abs(u[3]))
    IN IF m < 1000 /\ h[4] < 1000 /\ dd < 2000 /\ k <= 4      \* k|u|^2 <= 1.2e7, dd W^2 < 2e9
       THEN Sign(k * N2(u) - dd * h[4] * h[4])
       ELSE BigCmp(BigMul(BigOf(k), BigN2(u)), BigMul(BigOf(dd), BigMul(BigOf(h[4]), BigOf(h[4]))))

\* Compare |h1 - g|^2 with |h2 - g|^2 (active axes): sign of |u1|^2 W2^2 - |u2|^2 W1^2
CmpRad2(h1, h2, g, act) ==
    LET u1 == VMul(act, VSub(HXYZ(h1), VScale(h1[4], g)))
        u2 == VMul(act, VSub(HXYZ(h2), VScale(h2[4], g)))
    IN BigCmp(BigMul(BigN2(u1), BigMul(BigOf(h2[4]), BigOf(h2[4]))),
              BigMul(BigN2(u2), BigMul(BigOf(h1[4]), BigOf(h1[4]))))

=============================================================================
