------------------------------- MODULE VTess -------------------------------
(***************************************************************************)
(* M-tess: assembly of the tessellation from independently built cells     *)
(* (Voronoi::{build_internal, build_voronoi_cells, finalize},              *)
(* VoronoiCell::from_convex_cell, VoronoiIntegrator::*,                    *)
(* ConvexCell::compute_face_integrals{,_sym}).                             *)
(*                                                                         *)
(* Bookkeeping must not depend on geometry, so the geometry is abstracted: *)
(* the input of the machine is, per generator, the list of half-spaces of  *)
(* its finished convex cell as descriptors                                 *)
(*     [w |-> 0 (neighbour) or 1..6 (wall), j |-> neighbour index (0 for a  *)
(*      wall), s |-> shift code (-1 = no shift, 0..26 = periodic shift),    *)
(*      hv |-> the plane carries at least one vertex (tetrahedra are fed    *)
(*      for it), ok |-> its normal is valid for the dimensionality]         *)
(* plus the mask.  Worker threads build cells in any schedule; results are *)
(* collected by index.                                                     *)
(***************************************************************************)
EXTENDS Integers, Sequences, FiniteSets, TLC

NoShift == -1              \* code of "shift = None"

---------------------------------------------------------------------------
(* pure operators shared by the model-checking actions and the trace specification *)

\* Shift code of the opposite direction (codes 0..26 = 9(sx+1)+3(sy+1)+(sz+1); 13 would be zero).
NegShift(s) == IF s = NoShift THEN NoShift ELSE 26 - s

\* VoronoiCell::from_convex_cell, voronoi_cell.rs:53-73: should a face be constructed for plane p
\* of cell i?   mask = the activity flags; hasmask = FALSE for Voronoi::build (mask = None).
ShouldConstruct(i, p, mask, hasmask) ==
    /\ p.ok
    /\ IF p.w = 0 /\ p.s = NoShift
       THEN p.j > i \/ (hasmask /\ ~mask[p.j])
       ELSE TRUE

\* The faces cell i contributes, in plane order (maybe_faces is indexed by plane, then flattened).
\* A face is only initialised when a tetrahedron of the decomposition is attributed to its plane.
RECURSIVE CellFacesFrom(_, _, _, _, _)
CellFacesFrom(i, ps, k, mask, hasmask) ==
    IF k > Len(ps) THEN <<>>
    ELSE (IF ps[k].hv /\ ShouldConstruct(i, ps[k], mask, hasmask)
          THEN <<[left |-> i, right |-> ps[k].j, s |-> ps[k].s, w |-> ps[k].w, pl |-> k]>>
          ELSE <<>>) \o CellFacesFrom(i, ps, k + 1, mask, hasmask)
CellFaces(i, ps, mask, hasmask) == CellFacesFrom(i, ps, 1, mask, hasmask)

\* ConvexCell::compute_face_integrals (non-symmetric): every plane with vertices and valid normal.
RECURSIVE NonSymFrom(_, _, _)
NonSymFrom(i, ps, k) ==
    IF k > Len(ps) THEN <<>>
    ELSE (IF ps[k].hv /\ ps[k].ok THEN <<[left |-> i, right |-> ps[k].j, s |-> ps[k].s, w |-> ps[k].w, pl |-> k]>> ELSE <<>>)
         \o NonSymFrom(i, ps, k + 1)
NonSym(i, ps) == NonSymFrom(i, ps, 1)

\* ConvexCell::compute_face_integrals_sym (convex_cell.rs:704-735): skip unshifted faces whose
\* right generator is an ACTIVE cell with a smaller index.
SymKeeps(i, f, mask) == ~(f.w = 0 /\ f.s = NoShift /\ f.right < i /\ mask[f.right])
Sym(i, ps, mask) == SelectSeq(NonSym(i, ps), LAMBDA f : SymKeeps(i, f, mask))

\* flatten!(faces): concatenation in cell-index order.
RECURSIVE FlattenFrom(_, _)
FlattenFrom(fv, i) == IF i > Len(fv) THEN <<>> ELSE fv[i] \o FlattenFrom(fv, i + 1)
Flatten(fv) == FlattenFrom(fv, 1)

\* Voronoi::finalize, voronoi.rs:256-263: link face number k (0-based k-1 in the code).
LinkOne(conn, k, f) ==
    LET c1 == [conn EXCEPT ![f.left] = Append(@, k)]
    IN IF f.w = 0 /\ f.s = NoShift THEN [c1 EXCEPT ![f.right] = Append(@, k)] ELSE c1
RECURSIVE LinkFrom(_, _, _)
LinkFrom(conn, fs, k) == IF k > Len(fs) THEN conn ELSE LinkFrom(LinkOne(conn, k, fs[k]), fs, k + 1)
LinkAll(n, fs) == LinkFrom([i \in 1..n |-> <<>>], fs, 1)

\* offsets = prefix sums of the face counts (voronoi.rs:265-270)
RECURSIVE PrefixFrom(_, _, _)
PrefixFrom(conn, i, acc) == IF i > Len(conn) THEN <<>> ELSE <<acc>> \o PrefixFrom(conn, i + 1, acc + Len(conn[i]))
Offsets(conn) == PrefixFrom(conn, 1, 0)

\* VoronoiCell::neighbour_ids (voronoi_cell.rs:138-151)
NeighbourIds(i, conn, fs) ==
    LET keep == SelectSeq(conn[i], LAMBDA k : fs[k].w = 0 /\ fs[k].s = NoShift)
    IN [m \in 1..Len(keep) |-> IF fs[keep[m]].left = i THEN fs[keep[m]].right ELSE fs[keep[m]].left]

\* The parallel cell loop (rayon par_iter over indices): a worker may pick up any index that has not been
\* claimed while it is idle, and only the worker that claimed an index finishes it.
ClaimPre(claimed, running, t, i) == running[t] = 0 /\ i \notin claimed
FinishPre(running, t, i) == i # 0 /\ running[t] = i

SeqToSet(q) == {q[k] : k \in 1..Len(q)}
Count(q, x) == Cardinality({k \in 1..Len(q) : q[k] = x})

---------------------------------------------------------------------------
(* properties of a finished assembly: n cells, mask, per-cell plane lists cps, face list fs,     *)
(* per-cell connectivity conn.                                                                *)
ListedByLeft(fs, conn)  == \A k \in 1..Len(fs) : Count(conn[fs[k].left], k) >= 1
ListedByRightIffUnshifted(fs, conn) ==
    \A k \in 1..Len(fs) :
        (fs[k].w = 0 /\ fs[k].s = NoShift /\ fs[k].right # fs[k].left)
            => Count(conn[fs[k].right], k) = 1 /\ Count(conn[fs[k].left], k) = 1
ListedByNoOther(n, fs, conn) ==
    \A i \in 1..n : \A m \in 1..Len(conn[i]) :
        LET f == fs[conn[i][m]]
        IN f.left = i \/ (f.w = 0 /\ f.s = NoShift /\ f.right = i)
NoUnselectedLeft(fs, mask) == \A k \in 1..Len(fs) : mask[fs[k].left]
\* every unshifted neighbour pair is stored at most once
StoredAtMostOnce(fs) ==
    \A k1 \in 1..Len(fs) : \A k2 \in 1..Len(fs) :
        (k1 < k2 /\ fs[k1].w = 0 /\ fs[k2].w = 0 /\ fs[k1].s = NoShift /\ fs[k2].s = NoShift)
            => ~( (fs[k1].left = fs[k2].left /\ fs[k1].right = fs[k2].right)
               \/ (fs[k1].left = fs[k2].right /\ fs[k1].right = fs[k2].left) )
\* neighbour iterator: no duplicates, never the cell itself
NeighbourIdsExact(n, fs, conn) ==
    \A i \in 1..n :
        LET nb == NeighbourIds(i, conn, fs)
        IN /\ i \notin SeqToSet(nb)
           /\ Cardinality(SeqToSet(nb)) = Len(nb)

\* Reciprocity of the INPUT: cell j lists (i, -s) with vertices whenever cell i lists (j, s) with
\* vertices (true for a Voronoi tessellation up to zero-area contacts).
Reciprocal(n, mask, cps) ==
    \A i \in 1..n : mask[i] => \A k \in 1..Len(cps[i]) :
        LET p == cps[i][k]
        IN (p.w = 0 /\ p.hv /\ p.ok /\ mask[p.j])
             => \E k2 \in 1..Len(cps[p.j]) :
                    LET q == cps[p.j][k2] IN q.w = 0 /\ q.j = i /\ q.s = NegShift(p.s) /\ q.hv /\ q.ok

\* Under reciprocity every unshifted face between two constructed cells is stored exactly once,
\* a face between a selected and an unselected cell exactly once with the selected cell left.
StoredOnce(n, mask, cps, fs) ==
    \A i \in 1..n : mask[i] => \A k \in 1..Len(cps[i]) :
        LET p == cps[i][k]
        IN (p.w = 0 /\ p.hv /\ p.ok /\ p.s = NoShift /\ p.j # i)
             => Cardinality({m \in 1..Len(fs) : fs[m].w = 0 /\ fs[m].s = NoShift /\
                                ((fs[m].left = i /\ fs[m].right = p.j) \/ (fs[m].left = p.j /\ fs[m].right = i))}) = 1

=============================================================================
