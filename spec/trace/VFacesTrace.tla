----------------------------- MODULE VFacesTrace -----------------------------
(***************************************************************************)
(* impl -> spec for face extraction (C15).  One line per 3D cell with face  *)
(* information: {id, cell, np, duals: [[a,b,c],...] (0-based, as stored),    *)
(* planes: [{j, s}] (neighbour+1 or 0 for a wall, shift code), faces:        *)
(* [{plane, verts, ngb, s}] as the accessors face_vertices / neighbour /     *)
(* shift / face_count report them}.  The recorded faces must be exactly      *)
(* what VFaces.WithFaces computes from the recorded vertex triples, must     *)
(* satisfy every structural property of VFaces, and the accessors must agree *)
(* with the half-space the face belongs to.                                  *)
(***************************************************************************)
EXTENDS VDecomp, Json, IOUtils, TLC

Rec == ndJsonDeserialize(IOEnv.VV_TRACE)
VARIABLES l

Checks(r) ==
    LET vs == [k \in 1..Len(r.duals) |-> <<r.duals[k][1] + 1, r.duals[k][2] + 1, r.duals[k][3] + 1>>]
        rf == [i \in 1..Len(r.faces) |-> [plane |-> r.faces[i].plane + 1,
                                          verts |-> [k \in 1..Len(r.faces[i].verts) |-> r.faces[i].verts[k] + 1],
                                          offset |-> 0]]
        ef == WithFaces(vs, r.np)
    IN  (IF ~NotStuck(ef) THEN {"the walk around a face gets stuck on the recorded vertex triples"} ELSE {})
   \cup (IF NotStuck(ef) /\ [i \in 1..Len(ef) |-> <<ef[i].plane, ef[i].verts>>] # [i \in 1..Len(rf) |-> <<rf[i].plane, rf[i].verts>>]
         THEN {"recorded faces differ from the face extraction of the specification on the same vertex triples"} ELSE {})
   \cup (IF ~Incidence(vs, rf) THEN {"a vertex does not belong to exactly the three faces of its planes"} ELSE {})
   \cup (IF ~Simple(rf) THEN {"a face's vertex list is not a simple cycle of at least three vertices"} ELSE {})
   \cup (IF Simple(rf) /\ ~EdgesOK(vs, rf) THEN {"consecutive face vertices do not share exactly two planes"} ELSE {})
   \cup (IF Simple(rf) /\ ~DirectionOK(vs, rf) THEN {"a face is not traversed in the direction given by the vertex triples"} ELSE {})
   \cup (IF ~PlaneOrder(rf) THEN {"faces are not in plane order"} ELSE {})
   \cup (IF ~EulerF(vs, rf) THEN {"V - E + F # 2"} ELSE {})
   \cup (IF \E i \in 1..Len(r.faces) : r.faces[i].ngb # r.planes[r.faces[i].plane + 1].j \/ r.faces[i].s # r.planes[r.faces[i].plane + 1].s
         THEN {"neighbour / shift accessor disagrees with the half-space of the face"} ELSE {})
   \cup (IF r.count # Len(r.faces) THEN {"face_count disagrees with the faces"} ELSE {})
   \* C14: what the integrals were fed (triangles per plane, tetrahedra per cell) in both decompositions
   \cup (IF \E p \in 1..r.np : r.ok[p] /\ r.triwo[p] # WoCounts(vs, r.np)[p]
         THEN {"without faces: a face integral was not fed two triangles per vertex of its plane [C14]"} ELSE {})
   \cup (IF \E p \in 1..r.np : r.ok[p] /\ r.triwf[p] # WfCounts(vs, r.np)[p]
         THEN {"with faces: a face integral was not fed a fan of k-2 triangles [C14]"} ELSE {})
   \cup (IF r.ntetwo # 6 * Len(vs) THEN {"without faces: a cell integral was not fed six tetrahedra per vertex [C14]"} ELSE {})
   \cup (IF r.ntetwf # SumLen(rf, 1) - 2 * Len(rf) THEN {"with faces: a cell integral was not fed k-2 tetrahedra per face [C14]"} ELSE {})
   \cup (IF r.dataidx # r.cell THEN {"per-cell data / the cell handed to init is not the cell with the same generator index [C14]"} ELSE {})

TInit == l = 1
TStep == /\ l <= Len(Rec)
         /\ PrintT(<<"VERDICT", ToJson([line |-> l, id |-> Rec[l].id, cell |-> Rec[l].cell, nfaces |-> Len(Rec[l].faces), failed |-> Checks(Rec[l])])>>)
         /\ l' = l + 1
TSpec == TInit /\ [][TStep]_l
TraceAccepted == TLCGet("stats").diameter - 1 = Len(Rec)
Consumed == l <= Len(Rec) + 1
=============================================================================
