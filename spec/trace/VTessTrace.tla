----------------------------- MODULE VTessTrace -----------------------------
(***************************************************************************)
(* impl -> spec for the assembly machine VTess.  Every line of the trace    *)
(* is one run of the library on one (input, mask): the per-cell plane lists *)
(* of the finished convex cells (public API of VoronoiIntegrator), and what *)
(* the library assembled from them on both routes (Voronoi::build{,_partial}*)
(* and Voronoi::from(&VoronoiIntegrator)): face list, connectivity array,   *)
(* offsets, counts, neighbour iterators, symmetric / non-symmetric integral *)
(* lists, bit tokens (opaque strings) and quantised measures (integers,     *)
(* unit 2^-26 of the box scale).                                           *)
(*                                                                         *)
(* The specification re-executes the assembly (CellFaces / Flatten /        *)
(* LinkAll / Offsets / NeighbourIds / Sym / NonSym of VTess) on the         *)
(* recorded plane lists and requires the recorded results to be exactly     *)
(* those; it evaluates the structural invariants of VTess on the recorded   *)
(* structure itself; and it checks the relational invariants (reciprocity,  *)
(* stored-once, restriction to the mask, volumes summing to the box) on     *)
(* tokens and quantised values.  One VERDICT line per trace line.           *)
(***************************************************************************)
EXTENDS VTess, Json, IOUtils

Rec == ndJsonDeserialize(IOEnv.VV_TRACE)
QU == 67108864          \* 2^26, the quantisation unit of the harness

VARIABLES l, full
tvars == <<l, full>>

Abs(x) == IF x < 0 THEN -x ELSE x
SX(s) == (s \div 9) - 1
SY(s) == ((s % 9) \div 3) - 1
SZ(s) == (s % 3) - 1
ShiftVec(s) == IF s = NoShift THEN <<0, 0, 0>> ELSE <<SX(s), SY(s), SZ(s)>>

Proj(fs) == [k \in 1..Len(fs) |-> <<fs[k].left, fs[k].right, fs[k].s>>]
\* recorded faces as VTess face records (indices made 1-based; right = 0 for a wall)
RecFaces(v) == [k \in 1..Len(v.faces) |->
                  [left |-> v.faces[k].left + 1, right |-> v.faces[k].right + 1, s |-> v.faces[k].s,
                   w |-> IF v.faces[k].right < 0 THEN 1 ELSE 0, aq |-> v.faces[k].aq, tok |-> v.faces[k].tok]]
RecConn(v, n) == [i \in 1..n |-> [m \in 1..Len(v.fidx[i]) |-> v.fidx[i][m] + 1]]
Minus1(q) == [m \in 1..Len(q) |-> q[m] - 1]

Expected(r, hm) == Flatten([i \in 1..r.n |-> IF r.mask[i] THEN CellFaces(i, r.cps[i], r.mask, hm) ELSE <<>>])

\* ---- C12 / C13: one route re-executed
RouteChecks(r, v, hm, name) ==
    LET n    == r.n
        ef   == Expected(r, hm)
        rf   == RecFaces(v)
        conn == LinkAll(n, ef)
        rc   == RecConn(v, n)
    IN  (IF Proj(ef) # Proj(rf) THEN {name \o ": face list differs from CellFaces/Flatten [C12 C07 C13]"} ELSE {})
   \cup (IF Proj(ef) = Proj(rf) /\ rc # conn THEN {name \o ": per-cell face indices differ from Link [C12]"} ELSE {})
   \cup (IF [i \in 1..n |-> v.offs[i]] # Offsets(rc) THEN {name \o ": offsets are not the prefix sums of the face counts [C12]"} ELSE {})
   \cup (IF \E i \in 1..n : v.cnts[i] # Len(rc[i]) THEN {name \o ": face_count differs from the length of the cell's slice [C12]"} ELSE {})
   \cup (IF Minus1(Flatten(rc)) # [m \in 1..Len(v.conn) |-> v.conn[m]] THEN {name \o ": connectivity array is not the concatenation of the cell lists [C12]"} ELSE {})
   \cup (IF ~ListedByLeft(rf, rc) THEN {name \o ": a face is not listed by its left cell [C12]"} ELSE {})
   \cup (IF ~ListedByRightIffUnshifted(rf, rc) THEN {name \o ": an unshifted face is not listed exactly once by its right and left cell [C12]"} ELSE {})
   \cup (IF ~ListedByNoOther(n, rf, rc) THEN {name \o ": a cell lists a face it is neither left nor unshifted right of [C12]"} ELSE {})
   \cup (IF ~NoUnselectedLeft(rf, r.mask) THEN {name \o ": a face has an unselected left cell [C07]"} ELSE {})
   \cup (IF \E i \in 1..n : Minus1(NeighbourIds(i, rc, rf)) # [m \in 1..Len(v.nbrs[i]) |-> v.nbrs[i][m]]
         THEN {name \o ": neighbour_ids differs from the other sides of the listed unshifted faces [C12]"} ELSE {})
   \cup (IF \E i \in 1..n : LET nb == [m \in 1..Len(v.nbrs[i]) |-> v.nbrs[i][m] + 1]
                           IN i \in SeqToSet(nb) \/ Cardinality(SeqToSet(nb)) # Len(nb)
         THEN {name \o ": neighbour_ids yields the cell itself or a duplicate [C12]"} ELSE {})

\* ---- C13: the two routes, and the integral lists
IntegralChecks(r) ==
    LET n  == r.n
        ns == Flatten([i \in 1..n |-> IF r.mask[i] THEN NonSym(i, r.cps[i]) ELSE <<>>])
        sy == Flatten([i \in 1..n |-> IF r.mask[i] THEN Sym(i, r.cps[i], r.mask) ELSE <<>>])
        rns == [k \in 1..Len(r.nonsym) |-> <<r.nonsym[k].left, r.nonsym[k].right, r.nonsym[k].s>>]
        rsy == [k \in 1..Len(r.sym) |-> <<r.sym[k].left, r.sym[k].right, r.sym[k].s>>]
        nstok == [k \in 1..Len(ns) |-> r.cps[ns[k].left][ns[k].pl].tok]
    IN  (IF r.direct.tok # r.integ.tok THEN {"converted integrator differs bitwise from the direct build [C13]"} ELSE {})
   \cup (IF Proj(ns) # rns THEN {"compute_face_integrals is not every valid plane with vertices of every constructed cell in index order [C13]"} ELSE {})
   \cup (IF Proj(sy) # rsy THEN {"compute_face_integrals_sym is not the non-symmetric list minus faces of a constructed lower-index unshifted neighbour [C13]"} ELSE {})
   \cup (IF Proj(ns) = rns /\ nstok # [k \in 1..Len(r.nonsym) |-> r.nonsym[k].tok] THEN {"non-symmetric integrals differ bitwise from the per-cell integrals [C13 C14]"} ELSE {})
   \cup (IF [k \in 1..Len(r.sym) |-> r.sym[k].tok] # [k \in 1..Len(r.direct.faces) |-> r.direct.faces[k].tok]
         THEN {"symmetric area/centroid integrals are not the stored faces, in order [C13]"} ELSE {})

\* ---- C03: reciprocity on quantised values, stored once
Near(a, b, slack) == Abs(a - b) <= slack
RecipChecks(r) ==
    LET n == r.n
        bad == {<<i, k>> \in {<<i, k>> \in (1..n) \X (1..40) : r.mask[i] /\ k <= Len(r.cps[i])} :
                  LET p == r.cps[i][k]
                  IN /\ p.w = 0 /\ p.hv /\ p.ok /\ p.aq >= 4 /\ r.mask[p.j]
                     /\ ~\E k2 \in 1..Len(r.cps[p.j]) :
                           LET q == r.cps[p.j][k2]
                               sh == ShiftVec(p.s)
                           IN /\ q.w = 0 /\ q.j = i /\ q.s = NegShift(p.s)
                              /\ Near(q.aq, p.aq, 2 + p.aq \div 1000000)
                              /\ \A d \in 1..3 : Near(q.nq[d], -p.nq[d], 2)
                              /\ (p.aq >= 65536 => \A d \in 1..3 : Near(q.cq[d], p.cq[d] - sh[d] * r.wq[d], 64))}
        rf == RecFaces(r.direct)
        once == \A i \in 1..n : r.mask[i] => \A k \in 1..Len(r.cps[i]) :
                  LET p == r.cps[i][k]
                  IN (p.w = 0 /\ p.hv /\ p.ok /\ p.aq >= 4 /\ p.s = NoShift /\ p.j # i /\ r.mask[p.j])
                       => Cardinality({m \in 1..Len(rf) : rf[m].w = 0 /\ rf[m].s = NoShift /\
                                ((rf[m].left = i /\ rf[m].right = p.j) \/ (rf[m].left = p.j /\ rf[m].right = i))}) = 1
        pairs == \A m \in 1..Len(rf) :
                  (rf[m].w = 0 /\ rf[m].s # NoShift /\ rf[m].aq >= 4 /\ r.mask[rf[m].right])
                    => \E m2 \in 1..Len(rf) : /\ rf[m2].left = rf[m].right /\ rf[m2].right = rf[m].left
                                             /\ rf[m2].s = NegShift(rf[m].s)
                                             /\ Near(rf[m2].aq, rf[m].aq, 2 + rf[m].aq \div 1000000)
    IN  (IF bad # {} THEN {"a face of non-negligible area has no reciprocal face (j -> i, -s) with equal area, shifted centroid, opposite normal [C03]"} ELSE {})
   \cup (IF ~once THEN {"an unshifted face between two constructed cells is not stored exactly once [C03]"} ELSE {})
   \cup (IF ~pairs THEN {"a periodic face between constructed cells has no reciprocal partner in the face list [C03]"} ELSE {})
   \cup (IF ~StoredAtMostOnce(rf) THEN {"an unshifted neighbour pair is stored twice [C03]"} ELSE {})

\* ---- C07: restriction to the mask (against the full run of the same input)
PlaneSig(ps) == [k \in 1..Len(ps) |-> <<ps[k].w, ps[k].j, ps[k].s, ps[k].hv, ps[k].ok, ps[k].tok>>]
\* the faces listed by a cell: same (other side, shift) with equal area up to rounding; faces of negligible
\* area may be present in one run only
SubFaceSet(a, b) == \A k \in 1..Len(a) : a[k].aq >= 4 =>
                        \E m \in 1..Len(b) : b[m].o = a[k].o /\ b[m].s = a[k].s /\ Near(b[m].aq, a[k].aq, 2 + a[k].aq \div 1000000)
SameFaceSet(a, b) == SubFaceSet(a, b) /\ SubFaceSet(b, a)
                     /\ Cardinality({k \in 1..Len(a) : a[k].aq >= 4}) = Cardinality({k \in 1..Len(b) : b[k].aq >= 4})
MaskChecks(r, f) ==
    IF f.id # r.id THEN {}
    ELSE LET n == r.n
             sel == {i \in 1..n : r.mask[i]}
             rf == RecFaces(r.direct)
         IN  (IF \E i \in sel : r.direct.ctok[i] # f.direct.ctok[i]
              THEN {"a selected cell differs bitwise (volume, centroid, generator, safety radius) from the full construction [C07]"} ELSE {})
        \cup (IF \E i \in sel : PlaneSig(r.cps[i]) # PlaneSig(f.cps[i])
              THEN {"a selected cell has a different set of planes / face integrals than in the full construction [C07]"} ELSE {})
        \cup (IF \E i \in (1..n) \ sel : r.cps[i] # <<>> \/ ~r.direct.czero[i] \/ ~r.integ.czero[i]
              THEN {"an unselected cell does not report zero volume and centroid [C07]"} ELSE {})
        \cup (IF \E i \in sel : \E k \in 1..Len(r.cps[i]) :
                    LET p == r.cps[i][k]
                    IN p.w = 0 /\ p.hv /\ p.ok /\ p.s = NoShift /\ ~r.mask[p.j]
                       /\ Cardinality({m \in 1..Len(rf) : rf[m].left = i /\ rf[m].right = p.j /\ rf[m].s = NoShift}) # 1
              THEN {"a face between a selected and an unselected cell is not present exactly once with the selected cell left [C07]"} ELSE {})
        \cup (IF \E m \in 1..Len(rf) : ~r.mask[rf[m].left] THEN {"a face has an unselected left cell [C07]"} ELSE {})
        \cup (IF \E i \in sel : ~SameFaceSet(r.direct.fset[i], f.direct.fset[i]) \/ ~SameFaceSet(r.integ.fset[i], f.direct.fset[i])
              THEN {"the faces a selected cell lists (neighbour, shift, area) differ from those it lists in the full construction [C07]"} ELSE {})

\* ---- C02: quantised volumes sum to the box
VolChecks(r) ==
    LET n == r.n
        RECURSIVE Sum(_)
        Sum(i) == IF i = 0 THEN 0 ELSE LET t == Sum(i - 1) IN IF Abs(t) > 4 * QU THEN t ELSE r.volq[i] + t   \* saturating
    IN IF \A i \in 1..n : r.mask[i]
       THEN (IF ~Near(Sum(n), QU, n + 2) THEN {"cell measures do not sum to the box measure [C02]"} ELSE {})
            \cup (IF \E i \in 1..n : ~r.vpos[i] THEN {"a constructed cell has non-positive measure [C02]"} ELSE {})
       ELSE (IF \E i \in 1..n : r.mask[i] /\ ~r.vpos[i] THEN {"a constructed cell has non-positive measure [C02]"} ELSE {})

\* ---- C16, second clause: generators added outside the safety ball of cell i leave the cell unchanged
\* (VCell.FarIrrelevant is the design-level statement).  Each record: the cell before (0) and after (1) the
\* rebuild with nadd extra generators at quantised distances dq, all strictly beyond the quantised radius srq.
FarChecks(r) ==
    LET bad(x) == \/ \E k \in 1..Len(x.dq) : x.dq[k] < x.srq            \* harness precondition
        changed(x) == \/ ~Near(x.volq0, x.volq1, 2)
                      \/ ~SameFaceSet(x.fset0, x.fset1)
                      \/ \E k \in 1..Len(x.fset1) : x.fset1[k].o > r.n /\ x.fset1[k].aq >= 4
                      \/ ~Near(x.srq, x.srq1, 2 + x.srq \div 1000000)
    IN  (IF \E k \in 1..Len(r.far) : bad(r.far[k]) THEN {"harness placed an added generator inside the safety ball [C16 tool]"} ELSE {})
   \cup (IF \E k \in 1..Len(r.far) : ~bad(r.far[k]) /\ changed(r.far[k])
         THEN {"a cell (measure, face set or safety radius) changed although every added generator lies outside its safety ball [C16]"} ELSE {})

Checks(r, f) ==
    RouteChecks(r, r.direct, r.hasmask, "direct") \cup RouteChecks(r, r.integ, TRUE, "integrator")
    \cup IntegralChecks(r) \cup RecipChecks(r) \cup VolChecks(r) \cup FarChecks(r)
    \cup (IF r.full THEN {} ELSE MaskChecks(r, f))

TInit == l = 1 /\ full = [id |-> -1]
TStep ==
    /\ l <= Len(Rec)
    /\ LET r == Rec[l]
           bad == Checks(r, full)
       IN /\ PrintT(<<"VERDICT", ToJson([id |-> r.id, line |-> l, full |-> r.full, n |-> r.n, failed |-> bad])>>)
          /\ full' = IF r.full THEN r ELSE full
    /\ l' = l + 1
TSpec == TInit /\ [][TStep]_tvars
TraceAccepted == TLCGet("stats").diameter - 1 = Len(Rec)
Consumed == l <= Len(Rec) + 1
=============================================================================
