----------------------------- MODULE VCellTrace -----------------------------
(***************************************************************************)
(* impl -> spec: validates what ConvexCell::build actually did (recorded   *)
(* through the cfg(meshless_voro_verif) hooks: Visit / Terminate /          *)
(* ClipTest / ClipDone events, regrouped per cell by the harness) against   *)
(* the cell machine VCell on exact lattice inputs.                          *)
(*                                                                         *)
(* The trace is a concatenation of cases.  Lines:                           *)
(*   case  {inp, emb, g}            new input - resets everything           *)
(*   cell  {c}                      ConvexCell::init for generator c        *)
(*   clip  {j, s, rem, new}         candidate (j, s) was clipped with;      *)
(*                                  rem / new = removed / created triples   *)
(*   term  {j, s}                   candidate (j, s) stopped the builder    *)
(*   clipfail {j, s, rem}           the builder panicked inside this clip   *)
(*   end   {c, complete, verts, hasverts}  final vertex triples (API)       *)
(*                                                                         *)
(* Every event must be a step VCell allows with tie policy "any" (a vertex  *)
(* exactly on the new plane may be kept or removed - the code decides such  *)
(* ties on snapped coordinates): the candidate is a nearest unvisited one,  *)
(* termination only when the safety radius permits it, the removed set is   *)
(* exactly the strictly clipped vertices plus some tied ones, the created   *)
(* vertices are exactly the boundary of the removed dual disc.  A cell that *)
(* deviates is reported in a VERDICT line (and the rest of the cell is      *)
(* skipped, so one rejection never hides the rest of the trace).            *)
(*                                                                         *)
(* Split edges: when an edge of the current cell lies exactly in the new      *)
(* plane and the code (deciding ties on snapped coordinates) removes one end  *)
(* point and keeps the other, the new vertex on that edge is the              *)
(* "intersection" of three planes through a common line; the code places it    *)
(* at the removed end point (Vertex::from_dual_on_edge, the repair of finding  *)
(* F2) and so does the replay (VCell.NewPoint): the history is validated to    *)
(* its end, the finished cell must still be the nearest-generator region.      *)
(***************************************************************************)
EXTENDS VCell, Json, IOUtils

Rec == ndJsonDeserialize(IOEnv.VV_TRACE)
NoInputs == {}

VARIABLES l,        \* next line to consume
          mode,     \* "idle" | "run" | "skip"
          why,      \* verdict of the current cell so far
          nclips,   \* clips replayed in this cell
          caseinfo  \* [g, emb] of the current case
tvars == <<vars, l, mode, why, nclips, caseinfo>>

Line == Rec[l]
IsEvent(e) == l <= Len(Rec) /\ Line.e = e

Tri(x) == Canon(<<x[1] + 1, x[2] + 1, x[3] + 1>>)
TriSet(xs) == {Tri(xs[i]) : i \in 1..Len(xs)}
CandOf(ln) == <<ln.j + 1, <<ln.s[1], ln.s[2], ln.s[3]>>>>
VertTriples == {v.t : v \in verts}

DummyInp == [id |-> 0, G |-> <<1, 1, 1>>, dim |-> 3, per |-> FALSE, gens |-> <<Zero3>>]
InpOf(r) == [id |-> r.id, G |-> <<r.G[1], r.G[2], r.G[3]>>, dim |-> r.dim, per |-> r.per,
             gens |-> [i \in 1..Len(r.gens) |-> <<r.gens[i][1], r.gens[i][2], r.gens[i][3]>>]]

TInit ==
    /\ inp = DummyInp /\ c = 1
    /\ planes = [w \in 1..6 |-> WallDesc(DummyInp, w)]
    /\ verts = {}
    /\ visited = {} /\ pc = "visit"
    /\ last = [q |-> <<1, Zero3>>, d2 |-> 0, act |-> "init"]
    /\ flags = [tie |-> FALSE, edgetie |-> FALSE, eqterm |-> FALSE, nclip |-> 0]
    /\ l = 1 /\ mode = "idle" /\ why = "ok" /\ nclips = 0
    /\ caseinfo = [g |-> -1, emb |-> -1]

TCase ==
    /\ IsEvent("case")
    /\ inp' = InpOf(Line.inp)
    /\ caseinfo' = [g |-> Line.g, emb |-> Line.emb]
    /\ mode' = "idle" /\ why' = "ok" /\ nclips' = 0
    /\ l' = l + 1
    /\ UNCHANGED <<c, planes, verts, visited, pc, last, flags>>

TCell ==
    /\ IsEvent("cell")
    /\ c' = Line.c + 1
    /\ planes' = [w \in 1..6 |-> WallDesc(inp, w)]
    /\ verts' = {[t |-> Canon(t), h |-> PointOf([w \in 1..6 |-> WallDesc(inp, w)], t)] : t \in InitTriples}
    /\ visited' = {} /\ pc' = "visit"
    /\ last' = [q |-> <<Line.c + 1, Zero3>>, d2 |-> 0, act |-> "init"]
    /\ flags' = [tie |-> FALSE, edgetie |-> FALSE, eqterm |-> FALSE, nclip |-> 0]
    /\ mode' = "run" /\ why' = "ok" /\ nclips' = 0
    /\ l' = l + 1
    /\ UNCHANGED <<inp, caseinfo>>

Skip(reason) ==
    /\ mode' = "skip" /\ why' = reason
    /\ UNCHANGED <<planes, verts, visited, pc, last, flags, nclips>>

\* The removed set logged by the code, as vertex records of the replayed state.
RemovedOf(ln) == {v \in verts : v.t \in TriSet(ln.rem)}

\* An edge of positive length lies in p and the code split it.
Discord(p, R) ==
    LET on == OnPlane(p)
    IN \E v1 \in R \cap on : \E v2 \in on \ R : v1.h # v2.h /\ Adjacent(v1.t, v2.t)

\* The replayed cell carries a vertex that was placed by the edge fall-back (its three planes are dependent): the code
\* keeps such a vertex at the removed end point of the split edge, while the exact predicate - consulted for it in later
\* undecided tests - speaks about the (ill-defined) intersection point of the snapped planes somewhere along that edge.
\* What the code does with the cell afterwards is attributed to the residual of finding F2.
HasFallbackVertex == \E v \in verts : ~IndependentAt(planes, v.t)
Attr(reason) == IF HasFallbackVertex THEN "discord" ELSE reason
Fallback(v) == ~IndependentAt(planes, v.t)

\* The removed dual triangles form a disc: their boundary is ONE simple cycle (every plane on it has exactly one outgoing and
\* one incoming boundary edge, and following the edges from any plane comes back after visiting all of them).  Only then can
\* compute_boundary rebuild the cycle; a removed set that is not a disc is what the residual of finding F2 consists of (tie
\* decisions taken on snapped coordinates that do not fit the cell built so far).
RECURSIVE OrbitLen(_, _, _, _)
OrbitLen(B, start, cur, n) ==
    LET nxt == (CHOOSE e \in B : e[1] = cur)[2]
    IN IF nxt = start \/ n > Cardinality(B) THEN n ELSE OrbitLen(B, start, nxt, n + 1)
IsDisc(R) ==
    LET B == BoundaryEdges(R)
        N == {e[1] : e \in B} \cup {e[2] : e \in B}
    IN /\ B # {}
       /\ \A x \in N : Cardinality({e \in B : e[1] = x}) = 1 /\ Cardinality({e \in B : e[2] = x}) = 1
       /\ OrbitLen(B, (CHOOSE e \in B : TRUE)[1], (CHOOSE e \in B : TRUE)[1], 1) = Cardinality(B)

TClip ==
    /\ IsEvent("clip")
    /\ l' = l + 1
    /\ UNCHANGED <<inp, c, caseinfo>>
    /\ IF mode # "run" THEN UNCHANGED <<planes, verts, visited, pc, last, flags, mode, why, nclips>>
       ELSE
       LET q   == CandOf(Line)
           dd  == CandD2(q)
           p   == CandPlane(q)
           so  == StrictOut(p)
           on  == OnPlane(p)
           R   == RemovedOf(Line)
           cmp == {CmpRad(4, v.h, Own, Act, dd) : v \in verts}
       IN
       IF q \notin Cands \/ q \in visited THEN Skip("candidate is not a fresh candidate of this cell")
       ELSE IF q \notin MinUnvisited THEN Skip("candidate visited out of distance order")
       ELSE IF ~(\E s \in cmp : s >= 0) THEN Skip("clipped although the safety radius was already below the distance")
       ELSE IF Cardinality(R) # Len(Line.rem) \/ Cardinality(TriSet(Line.rem)) # Len(Line.rem)
            THEN Skip("removed vertices are not vertices of the cell")
       \* (a decision that differs from the exact side is attributed to finding F2 only for fall-back vertices - the only vertices
       \* whose location the code and the exact replay may disagree about)
       ELSE IF ~(so \subseteq R /\ R \subseteq so \cup on)
            THEN Skip(IF \A v \in (so \ R) \cup (R \ (so \cup on)) : Fallback(v) THEN "discord"
                      ELSE "removed set differs from the strictly clipped vertices (plus ties)")
       ELSE IF R = {}
            THEN IF Len(Line.new) # 0 THEN Skip("vertices created although nothing was removed")
                 ELSE /\ visited' = visited \cup {q}
                      /\ last' = [q |-> q, d2 |-> dd, act |-> "nocut"]
                      /\ nclips' = nclips + 1
                      /\ UNCHANGED <<planes, verts, pc, flags, mode, why>>
       ELSE
       LET pi  == Len(planes) + 1
           ps2 == Append(planes, NgbDesc(q, p))
           B   == BoundaryEdges(R)
           want == {Canon(<<e[1], e[2], pi>>) : e \in B}
       IN IF TriSet(Line.new) # want \/ Len(Line.new) # Cardinality(want)
          THEN Skip("created vertices are not the boundary of the removed dual disc")
          ELSE /\ planes' = ps2
               \* (a boundary edge lying in the new plane - the code split it by its tie decisions - gets its new vertex at
               \* the removed end point: VCell.NewPoint, Vertex::from_dual_on_edge)
               /\ verts' = (verts \ R) \cup {[t |-> Canon(<<e[1], e[2], pi>>), h |-> NewPoint(ps2, R, e, pi)] : e \in B}
               /\ visited' = visited \cup {q}
               /\ last' = [q |-> q, d2 |-> dd, act |-> "cut"]
               /\ flags' = [flags EXCEPT !.tie = @ \/ on # {}, !.edgetie = @ \/ EdgeIn(on) \/ Discord(p, R), !.nclip = @ + 1]
               /\ nclips' = nclips + 1
               /\ UNCHANGED <<pc, mode, why>>

TTerm ==
    /\ IsEvent("term")
    /\ l' = l + 1
    /\ UNCHANGED <<inp, c, caseinfo, planes, verts, flags, nclips>>
    /\ IF mode # "run" THEN UNCHANGED <<visited, pc, last, mode, why>>
       ELSE
       LET q   == CandOf(Line)
           dd  == CandD2(q)
           cmp == {CmpRad(4, v.h, Own, Act, dd) : v \in verts}
       IN IF q \notin Cands \/ q \in visited
          THEN mode' = "skip" /\ why' = "candidate is not a fresh candidate of this cell" /\ UNCHANGED <<visited, pc, last>>
          ELSE IF q \notin MinUnvisited
          THEN mode' = "skip" /\ why' = "candidate visited out of distance order" /\ UNCHANGED <<visited, pc, last>>
          ELSE IF ~(\A s \in cmp : s <= 0)
          THEN mode' = "skip" /\ why' = "terminated although a vertex is farther than half the distance to the candidate" /\ UNCHANGED <<visited, pc, last>>
          ELSE /\ visited' = visited \cup {q} /\ pc' = "done"
               /\ last' = [q |-> q, d2 |-> dd, act |-> "term"]
               /\ UNCHANGED <<mode, why>>

TClipFail ==
    /\ IsEvent("clipfail")
    /\ l' = l + 1
    /\ UNCHANGED <<inp, c, caseinfo, planes, verts, visited, pc, last, flags, nclips>>
    /\ IF mode # "run" THEN UNCHANGED <<mode, why>>
       ELSE /\ mode' = "skip"
            /\ why' = LET q == CandOf(Line)
                           p == CandPlane(q)
                           R == RemovedOf(Line)
                           pi == Len(planes) + 1
                           ps2 == Append(planes, NgbDesc(q, p))
                           dep == \E e \in BoundaryEdges(R) : ~IndependentAt(ps2, <<e[1], e[2], pi>>)
                           \* tie decisions (taken on snapped coordinates) took part in the removed set of the failing clip
                           tied == OnPlane(p) # {}
                       \* residual of finding F2: the removed set the code arrived at (through tie decisions on snapped coordinates or
                       \* decisions about a fall-back vertex) is not a disc, so its boundary cannot be rebuilt.  A panic although the
                       \* removed set IS a disc (e.g. a split edge whose new vertex is not placed on the edge) is not excused.
                       IN IF q \in Cands /\ (HasFallbackVertex \/ tied) /\ ~IsDisc(R) THEN "discord" ELSE "panic inside a clip"

\* What the finished cell must look like.
FinalChecks(ln) ==
    IF ~ln.complete THEN "builder did not finish this cell"
    ELSE IF pc # "done" /\ Cands \ visited # {} THEN "builder stopped before the candidate stream was exhausted or the safety radius reached"
    ELSE IF ln.hasverts /\ TriSet(ln.verts) # VertTriples THEN "final vertex triples differ from the replayed state"
    ELSE IF ~FinalAt(RadUB) THEN "a final vertex is closer to another generator (cell is not the nearest-generator region)"
    ELSE IF ~Closed THEN "final dual triangulation is not a closed surface"
    ELSE IF ~Euler THEN "Euler relation fails"
    ELSE IF ~OrientedWeak THEN "a vertex triple is not counter-clockwise"
    ELSE IF ~InsideCurrent THEN "a vertex violates a stored half-space"
    ELSE "ok"

TEnd ==
    /\ IsEvent("end")
    /\ l' = l + 1
    /\ LET fc == FinalChecks(Line)
           verdict == IF mode = "run" THEN (IF fc = "ok" THEN "ok" ELSE Attr(fc)) ELSE why
       IN PrintT(<<"VERDICT", ToJson([g |-> caseinfo.g, emb |-> caseinfo.emb, cell |-> Line.c, verdict |-> verdict,
                                       nclips |-> nclips, tie |-> flags.tie, line |-> l])>>)
    /\ mode' = "idle" /\ why' = "ok"
    /\ UNCHANGED <<inp, c, caseinfo, planes, verts, visited, pc, last, flags, nclips>>

TNext == TCase \/ TCell \/ TClip \/ TTerm \/ TClipFail \/ TEnd
TSpec == TInit /\ [][TNext]_tvars

\* every line consumed
TraceAccepted == TLCGet("stats").diameter - 1 = Len(Rec)
Consumed == l <= Len(Rec) + 1
=============================================================================
