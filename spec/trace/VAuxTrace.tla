------------------------------ MODULE VAuxTrace ------------------------------
(* impl -> spec for the uniform-grid k-nearest-neighbour search (C20): one line per call of Space::knn (hook        *)
(* verif::space_knn) on a lattice particle set: {id, pts, k, nn}.  TLC recomputes every squared distance exactly   *)
(* and requires every particle's list to be its k nearest other particles in order of increasing distance.        *)
EXTENDS VAux, Json, IOUtils

Rec == ndJsonDeserialize(IOEnv.VV_TRACE)
VARIABLES l
Checks(r) ==
    LET pts == [i \in 1..Len(r.pts) |-> <<r.pts[i][1], r.pts[i][2], r.pts[i][3]>>]
        bad == {i \in 1..Len(pts) : ~KnnOK(pts, i, [m \in 1..Len(r.nn[i]) |-> r.nn[i][m] + 1], r.k)}
    IN IF r.panic THEN {"knn panicked"}
       ELSE IF Len(r.nn) # Len(pts) THEN {"knn does not return one list per particle"}
       ELSE IF bad # {} THEN {"a particle's list is not its k nearest other particles in order of increasing distance"} ELSE {}
TInit == l = 1
TStep == /\ l <= Len(Rec)
         /\ PrintT(<<"VERDICT", ToJson([line |-> l, id |-> Rec[l].id, k |-> Rec[l].k, n |-> Len(Rec[l].pts), failed |-> Checks(Rec[l])])>>)
         /\ l' = l + 1
TSpec == TInit /\ [][TStep]_l
TraceAccepted == TLCGet("stats").diameter - 1 = Len(Rec)
Consumed == l <= Len(Rec) + 1
=============================================================================
