------------------------------ MODULE VNNTrace ------------------------------
(***************************************************************************)
(* impl -> spec for the candidate stream (C17).  One trace line per query:  *)
(*   {G, dim, per, gens, qi, limit, full, seq: [[j, sx, sy, sz, has], ...]}  *)
(* = what nn_iter / wrapping_nn_iter (through the cfg-guarded hook           *)
(* verif::nn_sequence) yielded for generator qi of the lattice input,        *)
(* shifts converted to lattice indices, has = the shift was Some.            *)
(* TLC recomputes every squared distance exactly and requires the stream to  *)
(* be a behaviour of VNN's output: self first, non-decreasing distance, no   *)
(* duplicates, shifts on the lattice {-1,0,1}^d of the active axes and        *)
(* absent iff zero, complete (full stream) or complete within the radius     *)
(* reached (prefix).                                                         *)
(***************************************************************************)
EXTENDS VGeom, Json, IOUtils, TLC

Rec == ndJsonDeserialize(IOEnv.VV_TRACE)
VARIABLES l

P3(x) == <<x[1], x[2], x[3]>>
Checks(r) ==
    LET n    == Len(r.gens)
        G    == P3(r.G)
        q    == P3(r.gens[r.qi + 1])
        m    == Len(r.seq)
        Cand(k) == <<r.seq[k][1] + 1, <<r.seq[k][2], r.seq[k][3], r.seq[k][4]>>>>
        Pos(c) == VAdd(P3(r.gens[c[1]]), VMul(c[2], G))
        Dist(k) == D2(q, Pos(Cand(k)))
        shifts == IF r.per THEN {<<a, b, c>> : a \in {-1, 0, 1}, b \in (IF r.dim >= 2 THEN {-1, 0, 1} ELSE {0}),
                                               c \in (IF r.dim >= 3 THEN {-1, 0, 1} ELSE {0})}
                  ELSE {<<0, 0, 0>>}
        seen == {Cand(k) : k \in 1..m}
        lastd == IF m = 0 THEN -1 ELSE Dist(m)
    IN  (IF m = 0 \/ Cand(1) # <<r.qi + 1, <<0, 0, 0>>>> THEN {"the stream does not start with the generator itself without shift"} ELSE {})
   \cup (IF \E k \in 1..m : Cand(k)[1] \notin 1..n \/ Cand(k)[2] \notin shifts THEN {"a candidate is not a generator image on the shift lattice of the active axes"} ELSE {})
   \cup (IF \E k \in 1..m-1 : Dist(k) > Dist(k + 1) THEN {"candidates are not visited in non-decreasing distance"} ELSE {})
   \cup (IF Cardinality(seen) # m THEN {"a candidate is visited more than once"} ELSE {})
   \cup (IF \E k \in 1..m : (r.seq[k][5] = 1) # (Cand(k)[2] # <<0, 0, 0>>) THEN {"a shift is reported as absent although non-zero, or present although zero"} ELSE {})
   \cup (IF r.full /\ m # n * Cardinality(shifts) THEN {"the full stream does not contain every generator image exactly once"} ELSE {})
   \cup (IF ~r.full /\ m < r.limit /\ m # n * Cardinality(shifts) THEN {"the stream ended before the limit without being complete"} ELSE {})
   \cup (IF \E j \in 1..n : \E s \in shifts : <<j, s>> \notin seen /\ D2(q, Pos(<<j, s>>)) < lastd
         THEN {"a candidate strictly closer than the last visited one was skipped"} ELSE {})

TInit == l = 1
TStep == /\ l <= Len(Rec)
         /\ PrintT(<<"VERDICT", ToJson([line |-> l, id |-> Rec[l].id, qi |-> Rec[l].qi, m |-> Len(Rec[l].seq), failed |-> Checks(Rec[l])])>>)
         /\ l' = l + 1
TSpec == TInit /\ [][TStep]_l
TraceAccepted == TLCGet("stats").diameter - 1 = Len(Rec)
Consumed == l <= Len(Rec) + 1
=============================================================================
