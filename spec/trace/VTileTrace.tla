----------------------------- MODULE VTileTrace -----------------------------
(***************************************************************************)
(* C02 at the level of the specification: the exact cells of the cell       *)
(* machine VCell TILE the box.  Input: the VOL lines printed by MCVMeasure  *)
(* (one per finished cell and per order of equidistant candidates: input,   *)
(* cell, residues of 6 x volume modulo the primes of VMeasure), sorted by    *)
(* input by the driver (a pure re-ordering of lines).  One step per line;    *)
(* when the input changes the group just finished must                       *)
(*   - contain every cell 1 .. n of the input,                               *)
(*   - give the same volume for a cell whatever the order in which           *)
(*     equidistant candidates were taken (every line of a cell agrees), and  *)
(*   - sum to 6 x the measure of the box (one period when periodic; the      *)
(*     unused axes of 1D / 2D inputs carry the slab [-1, 1] of measure 2),   *)
(* modulo every prime that no line of the group had to skip.                 *)
(***************************************************************************)
EXTENDS VMeasure, Json, IOUtils, TLC

Rec == ndJsonDeserialize(IOEnv.VV_TRACE)
VARIABLES l, key, vols, fcs, ngroups, nbad

KeyOf(r) == <<r.G, r.dim, r.per, r.gens>>
NP == Len(Primes)
BoxVol6(k) == LET e(i) == IF i <= k[2] THEN k[1][i] ELSE 2 IN 6 * e(1) * e(2) * e(3)

RECURSIVE SumCells(_, _, _, _)
SumCells(P, vs, pk, i) == IF i > Len(vs) THEN 0 ELSE MAdd(P, vs[i][pk], SumCells(P, vs, pk, i + 1))

\* ---- C03 at design level: faces of positive area are reciprocal.  For a face of cell i towards (j, s) with area vector av
\* (residues), signed area a and first moments a1 about g_i, cell j has a face towards (i, -s) with area vector -av and the
\* same centroid:  a1_i - a1_j = 3 a (g_j + s G - g_i).
FaceSetOf(r) == {[j |-> x.j, s |-> <<x.s[1], x.s[2], x.s[3]>>, av |-> x.av, a |-> x.a, a1 |-> x.a1] : x \in {r.f[m] : m \in 1..Len(r.f)}}
Vec3(v) == <<v[1], v[2], v[3]>>
NonZeroFace(f, usable) == \E pk \in usable : Vec3(f.av[pk]) # <<0, 0, 0>>
MirrorFace(f, f2, i, k, usable) ==
    /\ f2.j = i /\ f2.s = <<-f.s[1], -f.s[2], -f.s[3]>>
    /\ \A pk \in usable :
          LET P == Primes[pk]
              gi == <<k[4][i][1], k[4][i][2], k[4][i][3]>>
              gj == <<k[4][f.j][1], k[4][f.j][2], k[4][f.j][3]>>
              d  == MV(P, VSub(VAdd(gj, VMul(f.s, <<k[1][1], k[1][2], k[1][3]>>)), gi))
          IN /\ Vec3(f2.av[pk]) = MVSub(P, MZero3, Vec3(f.av[pk]))
             /\ f2.a[pk] = f.a[pk]
             /\ MVSub(P, Vec3(f.a1[pk]), Vec3(f2.a1[pk])) = MVScale(P, MMul(P, 3, f.a[pk]), d)
RecipFails(k, vs, fs) ==
    LET usable == {pk \in 1..NP : \A i \in 1..Len(vs) : vs[i] # <<>> /\ vs[i] # <<-2>> /\ vs[i][pk] >= 0}
    IN IF \E i \in 1..Len(fs) : \E f \in fs[i] : NonZeroFace(f, usable) /\ ~\E f2 \in fs[f.j] : MirrorFace(f, f2, i, k, usable)
       THEN {"a face of positive area has no mirror face (same area vector, same centroid) in the neighbouring cell"} ELSE {}

\* vols: cell (1-based) -> residues, <<>> while no line of that cell has been seen; "clash" when two lines disagree
GroupFails(k, vs) ==
    (IF \E i \in 1..Len(vs) : vs[i] = <<>> THEN {"a cell of the input has no finished state"} ELSE {})
  \cup (IF \E i \in 1..Len(vs) : vs[i] = <<-2>> THEN {"the volume of a cell depends on the order of equidistant candidates"} ELSE {})
  \cup (IF (\A i \in 1..Len(vs) : vs[i] # <<>> /\ vs[i] # <<-2>>)
           /\ \E pk \in 1..NP : (\A i \in 1..Len(vs) : vs[i][pk] >= 0)
                                /\ SumCells(Primes[pk], vs, pk, 1) # Mo(Primes[pk], BoxVol6(k))
        THEN {"the exact cell volumes do not sum to the measure of the box"} ELSE {})
PrimesUsed(vs) == Cardinality({pk \in 1..NP : \A i \in 1..Len(vs) : vs[i] # <<>> /\ vs[i] # <<-2>> /\ vs[i][pk] >= 0})

AllFails(k, vs, fs) == GroupFails(k, vs) \cup (IF GroupFails(k, vs) = {} THEN RecipFails(k, vs, fs) ELSE {})
Close(k, vs, fs) == PrintT(<<"VERDICT", ToJson([line |-> l, G |-> k[1], dim |-> k[2], per |-> k[3], n |-> Len(vs),
                                               primes |-> PrimesUsed(vs), nfaces |-> Cardinality(UNION {fs[i] : i \in 1..Len(fs)}),
                                               failed |-> AllFails(k, vs, fs)])>>)

Merge(old, r) == IF old = <<>> THEN r ELSE IF old = r THEN old ELSE <<-2>>
Fresh(r) == [i \in 1..Len(r.gens) |-> IF i = r.cell THEN r.r ELSE <<>>]
FreshF(r) == [i \in 1..Len(r.gens) |-> IF i = r.cell THEN FaceSetOf(r) ELSE {}]

TInit == l = 1 /\ key = <<>> /\ vols = <<>> /\ fcs = <<>> /\ ngroups = 0 /\ nbad = 0
TStep ==
    \/ /\ l <= Len(Rec)
       /\ LET r == Rec[l]  k == KeyOf(r)
          IN IF k = key
             THEN /\ vols' = [vols EXCEPT ![r.cell] = Merge(@, r.r)]
                  /\ fcs' = [fcs EXCEPT ![r.cell] = IF @ = {} THEN FaceSetOf(r) ELSE @]      \* the faces of the first line of a cell
                  /\ UNCHANGED <<key, ngroups, nbad>>
             ELSE /\ (key # <<>>) => Close(key, vols, fcs)
                  /\ nbad' = nbad + (IF key # <<>> /\ AllFails(key, vols, fcs) # {} THEN 1 ELSE 0)
                  /\ ngroups' = ngroups + 1
                  /\ key' = k
                  /\ vols' = Fresh(r)
                  /\ fcs' = FreshF(r)
       /\ l' = l + 1
    \/ /\ l = Len(Rec) + 1                  \* close the last group
       /\ (key # <<>>) => Close(key, vols, fcs)
       /\ nbad' = nbad + (IF key # <<>> /\ AllFails(key, vols, fcs) # {} THEN 1 ELSE 0)
       /\ l' = l + 1
       /\ UNCHANGED <<key, vols, fcs, ngroups>>
TSpec == TInit /\ [][TStep]_<<l, key, vols, fcs, ngroups, nbad>>
TraceAccepted == TLCGet("stats").diameter - 2 = Len(Rec)
Consumed == l <= Len(Rec) + 2
=============================================================================
