----------------------------- MODULE VTileTrace -----------------------------
(***************************************************************************)
(* C02 at the level of the specification: the exact cells of the cell       *)
(* machine VCell TILE the box.  Input: the VOL lines printed by MCVMeasure  *)
(* (one per finished cell and per order of equidistant candidates: input,   *)
(* cell, residues of 6 x volume modulo the primes of VMeasure), sorted by    *)
(* input by the driver (a pure re-ordering of lines).  One step per line;    *)
(* when the input changes the group just finished must                       *)
(*   - contain every cell 1 .. n of the input,                               *)
(*   - give the same volume for a cell whatever the order in which           *)
(*     equidistant candidates were taken (every line of a cell agrees), and  *)
(*   - sum to 6 x the measure of the box (one period when periodic; the      *)
(*     unused axes of 1D / 2D inputs carry the slab [-1, 1] of measure 2),   *)
(* modulo every prime that no line of the group had to skip.                 *)
(***************************************************************************)
EXTENDS VMeasure, Json, IOUtils, TLC

Rec == ndJsonDeserialize(IOEnv.VV_TRACE)
VARIABLES l, key, vols, ngroups, nbad

KeyOf(r) == <<r.G, r.dim, r.per, r.gens>>
NP == Len(Primes)
BoxVol6(k) == LET e(i) == IF i <= k[2] THEN k[1][i] ELSE 2 IN 6 * e(1) * e(2) * e(3)

RECURSIVE SumCells(_, _, _, _)
SumCells(P, vs, pk, i) == IF i > Len(vs) THEN 0 ELSE MAdd(P, vs[i][pk], SumCells(P, vs, pk, i + 1))

\* vols: cell (1-based) -> residues, <<>> while no line of that cell has been seen; "clash" when two lines disagree
GroupFails(k, vs) ==
    (IF \E i \in 1..Len(vs) : vs[i] = <<>> THEN {"a cell of the input has no finished state"} ELSE {})
  \cup (IF \E i \in 1..Len(vs) : vs[i] = <<-2>> THEN {"the volume of a cell depends on the order of equidistant candidates"} ELSE {})
  \cup (IF (\A i \in 1..Len(vs) : vs[i] # <<>> /\ vs[i] # <<-2>>)
           /\ \E pk \in 1..NP : (\A i \in 1..Len(vs) : vs[i][pk] >= 0)
                                /\ SumCells(Primes[pk], vs, pk, 1) # Mo(Primes[pk], BoxVol6(k))
        THEN {"the exact cell volumes do not sum to the measure of the box"} ELSE {})
PrimesUsed(vs) == Cardinality({pk \in 1..NP : \A i \in 1..Len(vs) : vs[i] # <<>> /\ vs[i] # <<-2>> /\ vs[i][pk] >= 0})

Close(k, vs) == PrintT(<<"VERDICT", ToJson([line |-> l, G |-> k[1], dim |-> k[2], per |-> k[3], n |-> Len(vs),
                                           primes |-> PrimesUsed(vs), failed |-> GroupFails(k, vs)])>>)

Merge(old, r) == IF old = <<>> THEN r ELSE IF old = r THEN old ELSE <<-2>>
Fresh(r) == [i \in 1..Len(r.gens) |-> IF i = r.cell THEN r.r ELSE <<>>]

TInit == l = 1 /\ key = <<>> /\ vols = <<>> /\ ngroups = 0 /\ nbad = 0
TStep ==
    \/ /\ l <= Len(Rec)
       /\ LET r == Rec[l]  k == KeyOf(r)
          IN IF k = key
             THEN /\ vols' = [vols EXCEPT ![r.cell] = Merge(@, r.r)]
                  /\ UNCHANGED <<key, ngroups, nbad>>
             ELSE /\ (key # <<>>) => Close(key, vols)
                  /\ nbad' = nbad + (IF key # <<>> /\ GroupFails(key, vols) # {} THEN 1 ELSE 0)
                  /\ ngroups' = ngroups + 1
                  /\ key' = k
                  /\ vols' = Fresh(r)
       /\ l' = l + 1
    \/ /\ l = Len(Rec) + 1                  \* close the last group
       /\ (key # <<>>) => Close(key, vols)
       /\ nbad' = nbad + (IF key # <<>> /\ GroupFails(key, vols) # {} THEN 1 ELSE 0)
       /\ l' = l + 1
       /\ UNCHANGED <<key, vols, ngroups>>
TSpec == TInit /\ [][TStep]_<<l, key, vols, ngroups, nbad>>
TraceAccepted == TLCGet("stats").diameter - 2 = Len(Rec)
Consumed == l <= Len(Rec) + 2
=============================================================================
