----------------------------- MODULE VParTrace ------------------------------
(***************************************************************************)
(* impl -> spec for the parallel cell loop (C09).  Trace lines:             *)
(*   ref {key, tok}                reference token of (input, mask) from    *)
(*                                 the SEQUENTIAL build (harness built      *)
(*                                 without the rayon feature)               *)
(*   run {key, threads, tok, tasks, traced}  one run in a rayon pool of     *)
(*                                 `threads` workers with seeded jitter;    *)
(*                                 tasks = recorded TaskStart/TaskEnd       *)
(*                                 events <<"s"|"e", index, worker id>>     *)
(* Each run must be a behaviour of the parallel fragment of VTess (every    *)
(* index claimed exactly once by an idle worker and finished by the worker  *)
(* that claimed it - ClaimPre / FinishPre, the guards of MCVTess.Claim and   *)
(* MCVTess.Finish) and must end in the unique final state the model         *)
(* predicts (Deterministic): its token equals the sequential reference.     *)
(***************************************************************************)
EXTENDS VTess, Json, IOUtils

Rec == ndJsonDeserialize(IOEnv.VV_TRACE)
VARIABLES l
Workers == 1..70          \* worker id -1 (no pool) .. 64, shifted by 2

RefLines == {k \in 1..Len(Rec) : Rec[k].e = "ref"}
HasRef(key) == \E k \in RefLines : Rec[k].key = key
RefOf(key) == Rec[CHOOSE k \in RefLines : Rec[k].key = key]

RECURSIVE Replay(_, _, _, _, _, _)
Replay(tasks, k, n, claimed, running, done) ==
    IF k > Len(tasks)
    THEN (IF claimed = 1..n /\ done = 1..n THEN "ok" ELSE "not every index was built exactly once")
    ELSE LET ev == tasks[k]
             i  == ev[2] + 1
             t  == ev[3] + 2
         IN IF t \notin Workers \/ i \notin 1..n THEN "event out of range"
            ELSE IF ev[1] = "s"
            THEN IF ClaimPre(claimed, running, t, i)
                 THEN Replay(tasks, k + 1, n, claimed \cup {i}, [running EXCEPT ![t] = i], done)
                 ELSE "an index was claimed twice, or by a worker that was still building another cell"
            ELSE IF FinishPre(running, t, i)
                 THEN Replay(tasks, k + 1, n, claimed, [running EXCEPT ![t] = 0], done \cup {i})
                 ELSE "a cell was finished by a worker that had not claimed it"

Verdict(r) ==
    IF r.e = "ref" THEN (IF r.panic THEN "sequential reference panicked" ELSE "ok")
    ELSE IF ~HasRef(r.key) THEN "no sequential reference for this run"
    ELSE IF r.panic # RefOf(r.key).panic THEN "run panicked although the sequential build did not (or vice versa)"
    ELSE IF r.tok # RefOf(r.key).tok THEN "result differs bitwise from the sequential build (not a pure function of the input)"
    ELSE IF r.traced THEN Replay(r.tasks, 1, r.n, {}, [t \in Workers |-> 0], {})
    ELSE "ok"

TInit == l = 1
TStep == /\ l <= Len(Rec)
         /\ PrintT(<<"VERDICT", ToJson([line |-> l, e |-> Rec[l].e, key |-> Rec[l].key, verdict |-> Verdict(Rec[l])])>>)
         /\ l' = l + 1
TSpec == TInit /\ [][TStep]_l
TraceAccepted == TLCGet("stats").diameter - 1 = Len(Rec)
Consumed == l <= Len(Rec) + 1
=============================================================================
