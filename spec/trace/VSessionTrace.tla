--------------------------- MODULE VSessionTrace ---------------------------
(* impl -> spec for API histories.  Events: {e:"session", id, dim3} opens a session on a fresh object, {e:"call", op, tok,   *)
(* panic} is one call with the token of what it returned.  A call that the specification does not allow in the current       *)
(* type-state, or whose token differs from what the same observation returned earlier in the session, is a mismatch: the     *)
(* session is marked bad and the rest of it skipped.                                                                          *)
EXTENDS Naturals, Sequences, FiniteSets, TLC, Json, IOUtils

Rec == ndJsonDeserialize(IOEnv.VV_TRACE)
VARIABLES l, ts, seen, hist, dim3, sid, bad, nsess, ncalls
S == INSTANCE VSession WITH Dims3 <- {TRUE, FALSE}, MaxLen <- 1000000
tvars == <<l, ts, seen, hist, dim3, sid, bad, nsess, ncalls>>

IsEv(e) == l <= Len(Rec) /\ Rec[l].e = e
TInit == l = 1 /\ ts = "WithoutFaces" /\ seen = <<>> /\ hist = <<>> /\ dim3 = TRUE /\ sid = 0 /\ bad = FALSE /\ nsess = 0 /\ ncalls = 0

Verdict(what) == PrintT(<<"VERDICT", ToJson([line |-> l, session |-> sid, what |-> what, hist |-> hist, op |-> Rec[l].op])>>)

Open == /\ IsEv("session")
        /\ ts' = "WithoutFaces" /\ seen' = <<>> /\ hist' = <<>> /\ dim3' = Rec[l].dim3 /\ sid' = Rec[l].id /\ bad' = FALSE
        /\ nsess' = nsess + 1 /\ l' = l + 1 /\ UNCHANGED ncalls
CallOK == /\ IsEv("call") /\ ~bad /\ ~Rec[l].panic
          /\ S!Call(Rec[l].op, Rec[l].tok)
          /\ l' = l + 1 /\ ncalls' = ncalls + 1 /\ UNCHANGED <<sid, bad, nsess>>
Mismatch == /\ IsEv("call") /\ ~bad
            /\ (Rec[l].panic \/ ~ENABLED S!Call(Rec[l].op, Rec[l].tok))
            /\ Verdict(IF Rec[l].panic THEN "a call panicked"
                       ELSE IF ~S!CanCall(Rec[l].op, ts) THEN "a call that the type-state does not allow was possible"
                       ELSE "an observation depends on the history of calls (same call, same type-state, different result)")
            /\ bad' = TRUE /\ l' = l + 1 /\ UNCHANGED <<ts, seen, hist, dim3, sid, nsess, ncalls>>
Skip == /\ IsEv("call") /\ bad /\ l' = l + 1 /\ UNCHANGED <<ts, seen, hist, dim3, sid, bad, nsess, ncalls>>
TNext == Open \/ CallOK \/ Mismatch \/ Skip
TSpec == TInit /\ [][TNext]_tvars
TraceAccepted == /\ TLCGet("stats").diameter - 1 = Len(Rec)
Consumed == l <= Len(Rec) + 1
Summary == (l = Len(Rec) + 1) => PrintT(<<"SUMMARY", ToJson([sessions |-> nsess, calls |-> ncalls])>>)
=============================================================================
