//! C09: results are a pure function of the input, whatever the schedule.
//! `sched --mode seq` (harness built WITHOUT the rayon feature) writes the reference token of every
//! (input, mask); `sched --mode par` (rayon build) runs the same inputs in thread pools of many
//! sizes with seeded jitter at the scheduling hook, records the TaskStart / TaskEnd events of the
//! parallel cell loop and the resulting tokens.  The trace is validated by VParTrace.tla.

use crate::common::*;
use crate::tess::{dump_token, float_inputs, FInput};
use glam::DVec3;
use meshless_voronoi::integrals::{AreaCentroidIntegral, AreaIntegral, VolumeCentroidIntegral, VolumeIntegral};
use meshless_voronoi::verif::{self, Event};
use meshless_voronoi::{Voronoi, VoronoiIntegrator};
use rand::rngs::StdRng;
use rand::{Rng, SeedableRng};
use serde_json::{json, Value};
use std::io::Write;

struct Hasher(u64);
impl Hasher {
    fn new() -> Self {
        Hasher(0xcbf29ce484222325)
    }
    fn feed(&mut self, x: u64) {
        for b in x.to_le_bytes() {
            self.0 ^= b as u64;
            self.0 = self.0.wrapping_mul(0x100000001b3);
        }
    }
    fn f(&mut self, x: f64) {
        self.feed(x.to_bits())
    }
    fn v(&mut self, x: DVec3) {
        self.f(x.x);
        self.f(x.y);
        self.f(x.z);
    }
}

/// Token of everything C09 names: cells, faces (in order), connectivity arrays of both routes and
/// every integral vector of the integrator (plain, symmetric, with data), with and without faces.
pub fn full_token(inp: &FInput, mask: &Option<Vec<bool>>) -> Result<String, String> {
    let dim = inp.dimensionality();
    let mref = mask.as_deref();
    guarded(|| {
        let mut h = Hasher::new();
        let direct = match mref {
            None => Voronoi::build(&inp.gens, inp.anchor, inp.width, dim, inp.per),
            Some(m) => Voronoi::build_partial(&inp.gens, m, inp.anchor, inp.width, dim, inp.per),
        };
        let integ = VoronoiIntegrator::build(&inp.gens, mref, inp.anchor, inp.width, dim, inp.per);
        let conv = Voronoi::from(&integ);
        for t in [dump_token(&direct), dump_token(&conv)] {
            for b in t.bytes() {
                h.feed(b as u64);
            }
        }
        let n = inp.gens.len();
        for c in integ.compute_cell_integrals::<VolumeCentroidIntegral>() {
            h.f(c.volume);
            h.v(c.centroid);
        }
        for c in integ.compute_cell_integrals::<VolumeIntegral>() {
            h.f(c.volume);
        }
        for c in integ.compute_cell_integrals_with_data::<(), VolumeCentroidIntegral>(&vec![(); n]) {
            h.f(c.volume);
            h.v(c.centroid);
        }
        let mut face_list = |fs: Vec<meshless_voronoi::integrals::FaceIntegrator<AreaCentroidIntegral>>, h: &mut Hasher| {
            h.feed(fs.len() as u64);
            for f in fs {
                h.feed(f.left() as u64);
                h.feed(f.right().map(|r| r as u64 + 1).unwrap_or(0));
                h.v(f.shift().unwrap_or(DVec3::splat(7.0)));
                h.f(f.integral().area);
                h.v(f.integral().centroid);
            }
        };
        face_list(integ.compute_face_integrals::<AreaCentroidIntegral>(), &mut h);
        face_list(integ.compute_face_integrals_sym::<AreaCentroidIntegral>(), &mut h);
        face_list(integ.compute_face_integrals_with_data::<(), AreaCentroidIntegral>(&vec![(); n]), &mut h);
        face_list(integ.compute_face_integrals_sym_with_data::<(), AreaCentroidIntegral>(&vec![(); n]), &mut h);
        for f in integ.compute_face_integrals::<AreaIntegral>() {
            h.f(f.integral().area);
        }
        if inp.dim == 3 {
            let wf = integ.clone().with_faces();
            for c in wf.compute_cell_integrals::<VolumeCentroidIntegral>() {
                h.f(c.volume);
                h.v(c.centroid);
            }
            for f in wf.compute_face_integrals_sym::<AreaCentroidIntegral>() {
                h.f(f.integral().area);
                h.v(f.integral().centroid);
            }
            let conv2 = Voronoi::from(&wf);
            for b in dump_token(&conv2).bytes() {
                h.feed(b as u64);
            }
        }
        format!("{:016x}", h.0)
    })
}

fn case_masks(n: usize, rng: &mut StdRng) -> Vec<Option<Vec<bool>>> {
    // the last one is SPARSE (fewer than one cell in sixteen selected, at least two): code paths that treat
    // "few active cells" specially must keep the cells in index order whatever the schedule
    let k = (n / 16).max(2).min(n);
    let mut sparse = vec![false; n];
    let mut placed = 0;
    while placed < k && placed < n {
        let i = rng.gen_range(0..n);
        if !sparse[i] {
            sparse[i] = true;
            placed += 1;
        }
    }
    vec![
        None,
        Some((0..n).map(|_| rng.gen_bool(0.5)).collect()),
        Some((0..n).map(|i| i >= n / 2).collect()),
        Some(sparse),
    ]
}

pub fn main_sched(args: &[String]) -> i32 {
    let mut mode = "par".to_string();
    let mut out_path = String::new();
    let mut seed = 0u64;
    let mut count = 12usize;
    let mut nmax = 60usize;
    let mut reps = 2usize;
    let mut pools: Vec<usize> = vec![1, 2, 3, 4, 8, 16, 64];
    let mut big = false;
    let mut i = 0;
    while i < args.len() {
        match args[i].as_str() {
            "--mode" => { mode = args[i + 1].clone(); i += 1 }
            "--out" => { out_path = args[i + 1].clone(); i += 1 }
            "--seed" => { seed = args[i + 1].parse().unwrap(); i += 1 }
            "--count" => { count = args[i + 1].parse().unwrap(); i += 1 }
            "--nmax" => { nmax = args[i + 1].parse().unwrap(); i += 1 }
            "--reps" => { reps = args[i + 1].parse().unwrap(); i += 1 }
            "--pools" => { pools = args[i + 1].split(',').map(|x| x.parse().unwrap()).collect(); i += 1 }
            "--big" => { big = true }
            _ => {}
        }
        i += 1;
    }
    install_quiet_panic_hook();
    let mut inputs = float_inputs(seed ^ 0x5EED, count, nmax, &[1, 2, 3, 3]);
    // exact lattices (every generator has several exactly equidistant neighbours) of sizes 9 .. 125 in reflective boxes whose
    // width is a power of two (exact snapping): whatever decides the order of equidistant candidates must not depend on the
    // number of worker threads, the size of the input relative to it, or the schedule
    for (j, (dim, m)) in [(1usize, 9usize), (1, 17), (2, 4), (2, 5), (3, 3), (3, 4), (2, 7), (3, 5)].iter().enumerate() {
        if j >= 6 && count < 20 {
            break;
        }
        let w = if *m <= 8 { 8.0 } else { 32.0 };
        let mm = [*m, if *dim >= 2 { *m } else { 1 }, if *dim >= 3 { *m } else { 1 }];
        let mut gens = vec![];
        for a in 0..mm[0] {
            for b in 0..mm[1] {
                for c in 0..mm[2] {
                    gens.push(DVec3::new(a as f64 + 0.5, if *dim >= 2 { b as f64 + 0.5 } else { 0.0 }, if *dim >= 3 { c as f64 + 0.5 } else { 0.0 }));
                }
            }
        }
        inputs.push(FInput { id: inputs.len(), kind: "ties".into(), gens, anchor: DVec3::ZERO, width: DVec3::splat(w), dim: *dim, per: false });
    }
    // lattices perturbed by 1e-14 .. 1e-12 of the box: edges of a cell lie in later bisectors up to rounding, some decided by the
    // exact predicate (ties) and some by the float filter - the rarely taken branches of the builder run side by side here, on
    // several threads and after other builds (state left behind by one clip must not reach another)
    {
        let mut r3 = StdRng::seed_from_u64(seed ^ 0x13E13);
        let reps = if count < 20 { 4 } else { 12 };
        for j in 0..reps {
            let dim = if j % 4 == 3 { 2 } else { 3 };
            let m = if dim == 2 { 5 } else { 3 + (j % 2) };
            let w = DVec3::new(1.0, 1.3, 0.7) * [1.0, 3.7, 0.11][j % 3];
            let eps = 10f64.powf(r3.gen_range(-14.0..-12.0));
            let mm = [m, m, if dim == 3 { m } else { 1 }];
            let mut gens = vec![];
            for a in 0..mm[0] {
                for b in 0..mm[1] {
                    for c in 0..mm[2] {
                        let p = DVec3::new((a as f64 + 0.5) / mm[0] as f64, (b as f64 + 0.5) / mm[1] as f64, if dim == 3 { (c as f64 + 0.5) / mm[2] as f64 } else { 0.0 });
                        let e = DVec3::new(r3.gen_range(-1.0..1.0), r3.gen_range(-1.0..1.0), if dim == 3 { r3.gen_range(-1.0..1.0) } else { 0.0 }) * eps;
                        // only some generators are moved: the others keep exact ties among themselves
                        let e = if r3.gen_bool(0.3) { e } else { DVec3::ZERO };
                        gens.push((p + e) * w);
                    }
                }
            }
            inputs.push(FInput { id: inputs.len(), kind: "nearties".into(), gens, anchor: DVec3::ZERO, width: w, dim, per: false });
        }
    }
    if big {
        // one large input: thresholds on the number of faces / cells must not change the result either
        let mut rng = StdRng::seed_from_u64(seed ^ 0xB16);
        let n = 9000;
        let gens: Vec<DVec3> = (0..n).map(|_| DVec3::new(rng.gen_range(0.0..1.0), rng.gen_range(0.0..1.0), rng.gen_range(0.0..1.0))).collect();
        inputs.push(FInput { id: inputs.len(), kind: "big".into(), gens, anchor: DVec3::ZERO, width: DVec3::ONE, dim: 3, per: true });
    }
    let mut rng = StdRng::seed_from_u64(seed ^ 0x77);
    let mut f = std::io::BufWriter::new(std::fs::File::create(&out_path).unwrap());
    for inp in inputs.iter() {
        let masks = case_masks(inp.gens.len(), &mut rng);
        for (mi, m) in masks.iter().enumerate() {
            if inp.kind == "big" && mi > 0 && mi < 3 {
                continue; // the large input: full run and the sparse mask only
            }
            let key = format!("{}:{}", inp.id, mi);
            if mode == "seq" {
                let tok = full_token(inp, m);
                let line = json!({"e": "ref", "key": key, "n": inp.gens.len(), "tok": tok.clone().unwrap_or_default(), "panic": tok.is_err(),
                                  "kind": inp.kind, "dim": inp.dim, "per": inp.per});
                writeln!(f, "{}", serde_json::to_string(&line).unwrap()).unwrap();
                continue;
            }
            #[cfg(feature = "rayon")]
            for &threads in pools.iter() {
                for rep in 0..reps {
                    if inp.kind == "big" && (rep > 0 || !(threads == 1 || threads == 8 || threads == 3)) {
                        continue;
                    }
                    let jseed = seed ^ ((threads as u64) << 32) ^ ((rep as u64) << 20) ^ (inp.id as u64 * 7919 + mi as u64);
                    let small = inp.gens.len() <= 200;
                    // seeded jitter: a worker about to build cell idx spins for a pseudo-random time
                    verif::set_sched_point(Some(Box::new(move |idx: usize| {
                        if !small {
                            return;
                        }
                        let mut x = jseed ^ (idx as u64).wrapping_mul(0x9E3779B97F4A7C15);
                        x ^= x >> 29;
                        x = x.wrapping_mul(0xBF58476D1CE4E5B9);
                        x ^= x >> 32;
                        let spins = (x % 4000) as u32;
                        for _ in 0..spins {
                            std::hint::spin_loop();
                        }
                        if x % 7 == 0 {
                            std::thread::yield_now();
                        }
                    })));
                    let pool = rayon::ThreadPoolBuilder::new().num_threads(threads).build().unwrap();
                    // 1. the events of the parallel cell loop of ONE direct build
                    verif::trace_take();
                    let dim = inp.dimensionality();
                    let mref = m.as_deref();
                    verif::trace_enable(small);
                    let _ = guarded(|| {
                        pool.install(|| match mref {
                            None => Voronoi::build(&inp.gens, inp.anchor, inp.width, dim, inp.per),
                            Some(mm) => Voronoi::build_partial(&inp.gens, mm, inp.anchor, inp.width, dim, inp.per),
                        })
                    });
                    verif::trace_enable(false);
                    let evs = verif::trace_take();
                    let mut tasks: Vec<Value> = vec![];
                    for (_, ev) in evs.iter() {
                        match ev {
                            Event::TaskStart { idx, tid } => tasks.push(json!(["s", idx, tid.map(|t| t as i64).unwrap_or(-1)])),
                            Event::TaskEnd { idx, tid } => tasks.push(json!(["e", idx, tid.map(|t| t as i64).unwrap_or(-1)])),
                            _ => {}
                        }
                    }
                    // 2. the token of everything, computed inside the same pool with the same jitter
                    let tok = pool.install(|| full_token(inp, m));
                    verif::set_sched_point(None);
                    let line = json!({"e": "run", "key": key, "n": inp.gens.len(), "threads": threads, "rep": rep,
                                      "tok": tok.clone().unwrap_or_default(), "panic": tok.is_err(), "tasks": tasks, "traced": small});
                    writeln!(f, "{}", serde_json::to_string(&line).unwrap()).unwrap();
                }
            }
            #[cfg(not(feature = "rayon"))]
            {
                let _ = (&pools, reps);
                eprintln!("sched --mode par needs the rayon feature");
                return 2;
            }
        }
    }
    0
}
