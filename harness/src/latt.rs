//! Pipeline L, spec -> impl: replay the cells TLC computed on exact lattice inputs into the real
//! library under several similarity embeddings and compare everything observable; and
//! impl -> spec: record what the builder did (visit / clip events) for validation by VCellTrace.

use crate::common::*;
use crate::probe::{ProbeCell, ProbeFace};
use glam::DVec3;
use meshless_voronoi::integrals::{AreaCentroidIntegral, VolumeCentroidIntegral};
use meshless_voronoi::verif::{self, Event};
use meshless_voronoi::{Voronoi, VoronoiIntegrator};
use serde_json::{json, Value};
use std::collections::BTreeMap;
use std::io::{BufRead, Write};

#[derive(Clone, Debug)]
struct SpecPlane {
    w: usize,
    j: i64,
    s: [i64; 3],
    n: [i64; 3],
}
#[derive(Clone, Debug)]
struct SpecVert {
    h: [i64; 4],
    on: Vec<usize>,
}
#[derive(Clone, Debug)]
struct SpecCell {
    cell: usize,
    planes: Vec<SpecPlane>,
    verts: Vec<SpecVert>,
    far: [i64; 4],
    flags: Value,
    last: Value,
}

fn arr_i64<const N: usize>(v: &Value) -> [i64; N] {
    let mut r = [0i64; N];
    for k in 0..N {
        r[k] = v[k].as_i64().unwrap();
    }
    r
}

fn parse_cell(v: &Value) -> SpecCell {
    SpecCell {
        cell: v["cell"].as_u64().unwrap() as usize,
        planes: v["planes"]
            .as_array()
            .unwrap()
            .iter()
            .map(|p| SpecPlane {
                w: p["w"].as_u64().unwrap() as usize,
                j: p["j"].as_i64().unwrap(),
                s: arr_i64::<3>(&p["s"]),
                n: arr_i64::<3>(&p["n"]),
            })
            .collect(),
        verts: v["verts"]
            .as_array()
            .unwrap()
            .iter()
            .map(|p| SpecVert {
                h: arr_i64::<4>(&p["h"]),
                on: p["on"].as_array().unwrap().iter().map(|x| x.as_u64().unwrap() as usize).collect(),
            })
            .collect(),
        far: arr_i64::<4>(&v["far"]),
        flags: v["flags"].clone(),
        last: v["last"].clone(),
    }
}

/// Key identifying a face of a cell: wall id (1..6) or (neighbour, shift index).
#[derive(Clone, Debug, PartialEq, Eq, PartialOrd, Ord)]
enum FKey {
    Wall(usize),
    Ngb(usize, [i64; 3]),
}

impl FKey {
    fn to_json(&self) -> Value {
        match self {
            FKey::Wall(w) => json!({"wall": w}),
            FKey::Ngb(j, s) => json!({"ngb": j, "shift": s}),
        }
    }
}

struct ExpFace {
    key: FKey,
    rf: RefFace,
    hidden: bool,
}

struct Expected {
    faces: Vec<ExpFace>,
    /// planes of the specification that carry fewer than three non-collinear points
    touching: Vec<FKey>,
    vol: f64,
    centroid: DVec3,
    points: Vec<DVec3>,
    r_far: f64,
}

fn expected_geometry(inp: &LInput, emb: &Embedding, sc: &SpecCell) -> Expected {
    let gen = emb.lattice(inp, inp.gens[sc.cell]);
    let scale = emb.scale(inp).max(1e-300);
    // distinct vertex points (exact dedupe on the homogeneous tuple)
    let mut faces = vec![];
    let mut touching = vec![];
    for (pi, pl) in sc.planes.iter().enumerate() {
        let mut hs: Vec<[i64; 4]> = vec![];
        for v in &sc.verts {
            if v.on.contains(&pi) && !hs.contains(&v.h) {
                hs.push(v.h);
            }
        }
        let key = if pl.w > 0 { FKey::Wall(pl.w) } else { FKey::Ngb(pl.j as usize, pl.s) };
        let pts: Vec<DVec3> = hs.iter().map(|h| emb.point(inp, *h)).collect();
        // relative non-collinearity measured in lattice units of the box scale
        // (active coordinates in units of the box scale, unused ones in units of the unit slab: a 2D face is a
        // segment x 1 whatever the scale of the active axes)
        let flat = if pts.len() >= 3 {
            let norm: Vec<DVec3> = pts.iter().map(|p| {
                let mut q = *p;
                for k in 0..3 {
                    q[k] = if inp.active(k) { q[k] / scale } else { q[k] };
                }
                q
            }).collect();
            non_collinearity(&norm)
        } else { 0.0 };
        let n = DVec3::new(pl.n[0] as f64, pl.n[1] as f64, pl.n[2] as f64).normalize();
        let hidden = (inp.dim..3).any(|k| pl.n[k] != 0);
        if pts.len() >= 3 && flat > 1e-7 {
            let (area, centroid) = polygon(&pts, n);
            faces.push(ExpFace {
                key,
                rf: RefFace { plane: pi, area, centroid, normal_out: -n, npoints: pts.len() },
                hidden,
            });
        } else {
            touching.push(key);
        }
    }
    let rfs: Vec<RefFace> = faces.iter().map(|f| f.rf.clone()).collect();
    let (vol, centroid) = volume_centroid(&rfs, gen);
    let mut hs: Vec<[i64; 4]> = vec![];
    for v in &sc.verts {
        if !hs.contains(&v.h) {
            hs.push(v.h);
        }
    }
    let points = hs.iter().map(|h| emb.point(inp, *h)).collect();
    // farthest vertex, distance measured in the active subspace
    let far = emb.point(inp, sc.far);
    let mut d = far - gen;
    for k in inp.dim..3 {
        d[k] = 0.0;
    }
    Expected { faces, touching, vol, centroid, points, r_far: d.length() }
}

fn shift_index(shift: Option<DVec3>, width: DVec3) -> ([i64; 3], bool) {
    match shift {
        None => ([0, 0, 0], true),
        Some(s) => {
            let mut r = [0i64; 3];
            let mut exact = true;
            for k in 0..3 {
                if !width[k].is_finite() {
                    // non-finite junk in the width of an unused axis: the only legitimate shift component there is zero
                    if s[k] != 0.0 {
                        exact = false;
                    }
                    continue;
                }
                let q = (s[k] / width[k]).round();
                r[k] = q as i64;
                // bitwise: the shift is exactly k * width
                if (q * width[k]).to_bits() != s[k].to_bits() && !(q == 0.0 && s[k] == 0.0) {
                    exact = false;
                }
            }
            (r, exact)
        }
    }
}

pub struct Fail {
    pub prop: &'static str,
    pub what: String,
    pub detail: Value,
}

pub struct Embeddings;
impl Embeddings {
    pub fn list(tier: &str, inp: &LInput, seed: u64, idx: usize) -> Vec<Embedding> {
        // exact-snapping embedding first (power-of-two scale, zero offset), then "generic" ones
        let gmax = inp.g.iter().take(inp.dim).cloned().max().unwrap_or(1) as f64;
        // Largest scale: 2e14 / G in 3D.  In 1D/2D the unused axes are a slab of UNIT thickness whatever the scale of the
        // active axes: once ulp(coordinate) is no longer negligible against 1, face polygons (length x 1) are tilted by the
        // rounding noise of their vertices and areas are off by (ulp/1)^2 (4e-4 at 1e14; the harness' own integrator
        // degrades in the same way).  That is conditioning, not a wrong transition: 1D/2D inputs stay below 1e9.
        let big = if inp.dim == 3 { 2e14 / gmax } else { 2f64.powi(28) / gmax };
        let mut v = vec![
            Embedding::new(1.0, [0.0; 3]),
            Embedding::new(0.1, [-17.25, 3.5, 0.7]),
            Embedding::new(7.3, [1000.0, -1000.0, 250.0]),
            // tiny absolute scale (a power of two: the result must be the exactly rescaled one): absolute thresholds
            // such as `area > f64::EPSILON` only show when measures are far below 1 in the user's units
            Embedding::new(2f64.powi(-40), [0.0; 3]),
            // anchor offset by about one to three box widths (anchor arithmetic that is only right at the origin or far from it)
            Embedding::new(1.0, [1.25 * inp.g[0] as f64, -2.5 * inp.g[1] as f64, 0.75 * inp.g[2] as f64]),
            // box a million widths from the origin, along a direction that diagonal bisectors are orthogonal to: their offsets
            // n.p cancel although |n|.|p| is large (error bounds of the float filter must come from the magnitudes)
            Embedding::new(1.0, [1e6, -1e6, 1e6]),
        ];
        if tier == "thorough" {
            v.push(Embedding::new(1e-9, [0.0; 3]));
            v.push(Embedding::new(if inp.dim == 3 { 2f64.powi(40) } else { 2f64.powi(24) }, [0.0; 3]));
            v.push(Embedding::new(0.125, [0.0; 3]));
            v.push(Embedding::new(1e-6, [0.0, 1e-3, -1e-3]));
            v.push(Embedding::new(1e6, [-1e6, 0.0, 5e5]));
            v.push(Embedding::new(big, [0.0; 3]));
            v.push(Embedding::new(1.0 / 3.0, [1.0 / 7.0, 0.3, -0.9]));
        } else {
            // rotate one extra embedding per input so that the quick tier still sees variety
            let extra = [
                Embedding::new(1e-6, [0.0, 1e-3, -1e-3]),
                Embedding::new(1e6, [-1e6, 0.0, 5e5]),
                Embedding::new(1.0 / 3.0, [1.0 / 7.0, 0.3, -0.9]),
                Embedding::new(1e-9, [0.0; 3]),
                Embedding::new(big, [0.0; 3]),
            ];
            // chosen by a hash of the input so that the choice does not depend on the order in
            // which TLC happened to print the cases
            let hsh = inp.key().bytes().fold(1469598103934665603u64, |a, b| (a ^ b as u64).wrapping_mul(1099511628211));
            let _ = idx;
            v.push(extra[((seed ^ hsh) % extra.len() as u64) as usize].clone());
        }
        if inp.dim < 3 {
            // C08: junk in the unused components
            let mut e = Embedding::new(0.1, [-17.25, 3.5, 0.7]);
            e.junk = Some([f64::MAX / 4.0, -1.0e30, 12345.678]);
            e.name = format!("{}+junk", e.name);
            v.push(e);
            let mut e = Embedding::new(1.0, [0.0; 3]);
            e.junk = Some([0.0, 0.0, -0.0]);
            e.name = format!("{}+zerojunk", e.name);
            v.push(e);
            // non-finite junk (an "unbounded" slab, an explicit not-a-number marker): arbitrary values are arbitrary values
            let mut e = Embedding::new(1.0, [0.0; 3]);
            e.junk = Some(if (seed ^ inp.gens.len() as u64) % 2 == 0 { [0.0, f64::NAN, f64::INFINITY] } else { [0.0, f64::NEG_INFINITY, f64::NAN] });
            e.name = format!("{}+nanjunk", e.name);
            v.push(e);
        }
        v
    }
}

struct ImplFace {
    key: FKey,
    area: f64,
    centroid: DVec3,
    n_in: DVec3,
    shift_exact: bool,
    shift_none: bool,
    off_plane: f64,
}

/// Everything observed about one run of the library on one embedded input.
pub struct Observed {
    pub vor: Result<Voronoi, String>,
    pub integ: Result<VoronoiIntegrator<meshless_voronoi::WithoutFaces>, String>,
    pub events: Vec<(u64, Event)>,
    pub exact_calls: u64,
}

pub fn run_library(inp: &LInput, emb: &Embedding, trace: bool) -> Observed {
    let gens = emb.generators(inp);
    let anchor = emb.anchor(inp);
    let width = emb.width(inp);
    let dim = inp.dimensionality();
    let before = verif::exact_calls();
    verif::trace_take();
    verif::trace_enable(trace);
    let integ = guarded(|| VoronoiIntegrator::build(&gens, None, anchor, width, dim, inp.per));
    verif::trace_enable(false);
    let events = verif::trace_take();
    let vor = guarded(|| Voronoi::build(&gens, anchor, width, dim, inp.per));
    let exact_calls = verif::exact_calls() - before;
    Observed { vor, integ, events, exact_calls }
}

fn finite3(v: DVec3) -> bool {
    v.x.is_finite() && v.y.is_finite() && v.z.is_finite()
}

/// Compare one embedded run with the specification's cells. Returns failures.
fn compare(
    inp: &LInput,
    emb: &Embedding,
    cells: &BTreeMap<usize, SpecCell>,
    obs: &Observed,
    stats: &mut Stats,
) -> Vec<Fail> {
    let mut fails = vec![];
    let n = inp.gens.len();
    let tl = emb.tol_len(inp);
    let scale = emb.scale(inp);
    let d = inp.dim as i32;
    let width = emb.width(inp);
    let gens = emb.generators(inp);
    // measure tolerances
    // faces are (d-1)-dimensional in the active subspace times unit thickness on the unused axes: a 1D face is the unit
    // square (tolerance relative to 1), a 2D face a segment x 1, a 3D face a polygon
    let tol_area = if d == 1 { 20.0 * (tl / scale) } else { 20.0 * tl * scale.powi(d - 2) };
    let tol_vol = 50.0 * tl * scale.powi(d - 1);
    let (vor, integ) = match (&obs.vor, &obs.integ) {
        (Ok(v), Ok(i)) => (v, i),
        (a, b) => {
            let msg = a.as_ref().err().or(b.as_ref().err()).cloned().unwrap_or_default();
            fails.push(Fail { prop: "C05", what: "panic".into(), detail: json!({"message": msg}) });
            return fails;
        }
    };
    // ---- C02: positive measures summing to the box measure
    let mut total = 0.0;
    for (i, c) in vor.cells().iter().enumerate() {
        total += c.volume();
        if !(c.volume() > 0.0) || !c.volume().is_finite() {
            fails.push(Fail {
                prop: "C02",
                what: "non-positive or non-finite cell measure".into(),
                detail: json!({"cell": i, "volume": c.volume()}),
            });
        }
        if !finite3(c.centroid()) || !c.safety_radius().is_finite() {
            fails.push(Fail { prop: "C05", what: "non-finite cell value".into(), detail: json!({"cell": i}) });
        }
    }
    let box_measure: f64 = (0..inp.dim).map(|k| width[k]).product();
    if (total - box_measure).abs() > tol_vol * (n as f64).max(4.0) {
        fails.push(Fail {
            prop: "C02",
            what: "cell measures do not sum to the box measure".into(),
            detail: json!({"sum": total, "box": box_measure, "tol": tol_vol * (n as f64).max(4.0)}),
        });
    }
    stats.cells_total += n;

    for (&ci, sc) in cells.iter() {
        let exp = expected_geometry(inp, emb, sc);
        let gen = emb.lattice(inp, inp.gens[ci]);
        let vc = &vor.cells()[ci];
        let cell = match integ.get_cell_at(ci) {
            Some(c) => c,
            None => {
                fails.push(Fail { prop: "C01", what: "cell missing".into(), detail: json!({"cell": ci}) });
                continue;
            }
        };
        stats.cells_compared += 1;
        // ---- C01 volume / centroid
        if (vc.volume() - exp.vol).abs() > tol_vol {
            fails.push(Fail {
                prop: "C01",
                what: "cell measure differs from the nearest-generator region".into(),
                detail: json!({"cell": ci, "got": vc.volume(), "expected": exp.vol, "tol": tol_vol}),
            });
        }
        let mut dc = vc.centroid() - exp.centroid;
        let mut loc_d = vc.loc() - gen;
        for k in inp.dim..3 {
            // unused axes: centroid 0 (mid-slab); generator projected to 0
            dc[k] = vc.centroid()[k];
            loc_d[k] = vc.loc()[k];
        }
        if dc.length() > 50.0 * tl {
            fails.push(Fail {
                prop: "C01",
                what: "cell centroid differs".into(),
                detail: json!({"cell": ci, "got": vc.centroid().to_array(), "expected": exp.centroid.to_array(), "tol": 50.0 * tl}),
            });
        }
        if loc_d.length() != 0.0 {
            fails.push(Fail {
                prop: if inp.dim < 3 { "C08" } else { "C01" },
                what: "cell generator position differs from the (projected) input".into(),
                detail: json!({"cell": ci, "got": vc.loc().to_array(), "expected": gen.to_array()}),
            });
        }
        // ---- C01 vertices (Hausdorff distance between vertex point sets)
        let ipts: Vec<DVec3> = cell.vertices.iter().map(|v| v.loc).collect();
        let mut haus: f64 = 0.0;
        for p in &exp.points {
            haus = haus.max(ipts.iter().map(|q| q.distance(*p)).fold(f64::INFINITY, f64::min));
        }
        for q in &ipts {
            haus = haus.max(exp.points.iter().map(|p| q.distance(*p)).fold(f64::INFINITY, f64::min));
        }
        if !(haus <= 50.0 * tl) {
            fails.push(Fail {
                prop: "C01",
                what: "vertex set differs (Hausdorff distance)".into(),
                detail: json!({"cell": ci, "hausdorff": haus, "tol": 50.0 * tl, "n_impl": ipts.len(), "n_spec_points": exp.points.len()}),
            });
        }
        // ---- faces as the cell sees them (non-symmetric integrals through a downstream probe)
        let probes = cell.compute_face_integrals::<(), ProbeFace>(());
        let acs = cell.compute_face_integrals::<(), AreaCentroidIntegral>(());
        let mut ifaces: Vec<ImplFace> = vec![];
        for (fi, f) in probes.iter().enumerate() {
            let pr = f.integral();
            let (sidx, exact) = shift_index(f.shift(), width);
            let key = match f.right() {
                None => FKey::Wall(pr.plane_idx + 1),
                Some(j) => FKey::Ngb(j, sidx),
            };
            if f.left() != ci {
                fails.push(Fail { prop: "C01", what: "face left index is not the cell".into(), detail: json!({"cell": ci, "left": f.left()}) });
            }
            // built-in integral agrees with the probe (same decomposition)
            let ac = acs[fi].integral();
            if (ac.area - pr.area).abs() > tol_area {
                fails.push(Fail { prop: "C14", what: "downstream face probe disagrees with AreaCentroidIntegral".into(), detail: json!({"cell": ci, "probe": pr.area, "builtin": ac.area}) });
            }
            ifaces.push(ImplFace {
                key,
                area: ac.area,
                centroid: ac.centroid,
                n_in: pr.n_in,
                shift_exact: exact,
                shift_none: f.shift().is_none(),
                off_plane: pr.max_off_plane,
            });
        }
        // C06: shifts are exact lattice vectors, absent iff zero; no walls on periodic axes
        for f in &ifaces {
            if let FKey::Ngb(j, s) = &f.key {
                if !f.shift_exact {
                    fails.push(Fail { prop: "C06", what: "face shift is not bitwise k*width".into(), detail: json!({"cell": ci, "ngb": j, "shift": s}) });
                }
                if (*s == [0, 0, 0]) != f.shift_none {
                    fails.push(Fail { prop: "C06", what: "shift present for an unwrapped neighbour or absent for a wrapped one".into(), detail: json!({"cell": ci, "ngb": j, "shift": s}) });
                }
                if !inp.per && *s != [0, 0, 0] {
                    fails.push(Fail { prop: "C06", what: "shift in a non-periodic tessellation".into(), detail: json!({"cell": ci, "ngb": j, "shift": s}) });
                }
                for k in 0..3 {
                    if s[k].abs() > 1 || (!inp.active(k) && s[k] != 0) {
                        fails.push(Fail { prop: "C06", what: "shift component outside {-1,0,1} or along an unused axis".into(), detail: json!({"cell": ci, "ngb": j, "shift": s}) });
                    }
                }
            }
            if let FKey::Wall(w) = &f.key {
                let axis = (w - 1) / 2;
                if inp.per && inp.active(axis) && f.area > tol_area {
                    fails.push(Fail { prop: "C06", what: "boundary face along a periodic axis".into(), detail: json!({"cell": ci, "wall": w, "area": f.area}) });
                }
            }
        }
        // match expected faces
        let mut used = vec![false; ifaces.len()];
        for ef in exp.faces.iter().filter(|f| !f.hidden) {
            stats.faces_expected += 1;
            let cands: Vec<usize> = (0..ifaces.len()).filter(|&k| ifaces[k].key == ef.key).collect();
            if cands.is_empty() {
                if ef.rf.area > tol_area {
                    fails.push(Fail {
                        prop: "C01",
                        what: "missing neighbour: the region has a face of positive area that the cell does not report".into(),
                        detail: json!({"cell": ci, "face": ef.key.to_json(), "area": ef.rf.area}),
                    });
                }
                continue;
            }
            // several impl faces with the same key would be a duplicate plane
            let tot_area: f64 = cands.iter().map(|&k| ifaces[k].area).sum();
            for &k in &cands {
                used[k] = true;
            }
            if cands.len() > 1 {
                fails.push(Fail { prop: "C01", what: "neighbour reported more than once".into(), detail: json!({"cell": ci, "face": ef.key.to_json(), "count": cands.len()}) });
            }
            let f = &ifaces[cands[0]];
            if (tot_area - ef.rf.area).abs() > tol_area {
                fails.push(Fail {
                    prop: "C01",
                    what: "face area differs".into(),
                    detail: json!({"cell": ci, "face": ef.key.to_json(), "got": tot_area, "expected": ef.rf.area, "tol": tol_area}),
                });
            } else if (f.centroid - ef.rf.centroid).length() > 50.0 * tl * (1.0 + scale * scale.powi(d - 2) / ef.rf.area.max(1e-300)).min(1e6)
                && ef.rf.area > 100.0 * tol_area
            {
                fails.push(Fail {
                    prop: "C01",
                    what: "face centroid differs".into(),
                    detail: json!({"cell": ci, "face": ef.key.to_json(), "got": f.centroid.to_array(), "expected": ef.rf.centroid.to_array()}),
                });
            }
            // C04 (plane normal as stored): unit, pointing into the cell => outward = -n
            if (f.n_in + ef.rf.normal_out).length() > 1e-9 {
                fails.push(Fail {
                    prop: "C04",
                    what: "clipping plane normal differs from the bisector / wall normal".into(),
                    detail: json!({"cell": ci, "face": ef.key.to_json(), "got_inward": f.n_in.to_array(), "expected_outward": ef.rf.normal_out.to_array()}),
                });
            }
            if f.off_plane > 50.0 * tl {
                fails.push(Fail { prop: "C14", what: "face triangles fed to the integral are off the face plane".into(), detail: json!({"cell": ci, "face": ef.key.to_json(), "off": f.off_plane}) });
            }
        }
        for (k, f) in ifaces.iter().enumerate() {
            if !used[k] && f.area > tol_area {
                fails.push(Fail {
                    prop: "C01",
                    what: "spurious neighbour: the cell reports a face of non-negligible area that the region does not have".into(),
                    detail: json!({"cell": ci, "face": f.key.to_json(), "area": f.area}),
                });
            }
            if !f.area.is_finite() || !finite3(f.centroid) {
                fails.push(Fail { prop: "C05", what: "non-finite face value".into(), detail: json!({"cell": ci, "face": f.key.to_json()}) });
            }
        }
        // ---- C08: no face orthogonal to the active subspace is reported
        for f in &ifaces {
            for k in inp.dim..3 {
                if f.n_in[k] != 0.0 {
                    fails.push(Fail { prop: "C08", what: "face with a normal component along an unused axis".into(), detail: json!({"cell": ci, "face": f.key.to_json(), "normal": f.n_in.to_array()}) });
                }
            }
        }
        // ---- C16: safety radius >= 2 * distance to the farthest point; >= distance to neighbours with a face
        let sr = vc.safety_radius();
        if !(sr >= 2.0 * exp.r_far * (1.0 - 1e-12) - tl) {
            fails.push(Fail {
                prop: "C16",
                what: "safety radius smaller than twice the distance to the farthest point of the cell".into(),
                detail: json!({"cell": ci, "safety_radius": sr, "r_far": exp.r_far}),
            });
        }
        for ef in exp.faces.iter().filter(|f| !f.hidden) {
            if let FKey::Ngb(j, s) = &ef.key {
                if ef.rf.area > tol_area {
                    let mut q = gens[*j];
                    for k in 0..3 {
                        q[k] += s[k] as f64 * width[k];
                    }
                    let mut dq = q - gens[ci];
                    for k in inp.dim..3 {
                        dq[k] = 0.0;
                    }
                    if !(sr >= dq.length() * (1.0 - 1e-12) - tl) {
                        fails.push(Fail {
                            prop: "C16",
                            what: "safety radius smaller than the distance to a neighbour with a face".into(),
                            detail: json!({"cell": ci, "safety_radius": sr, "ngb": j, "dist": dq.length()}),
                        });
                    }
                }
            }
        }
        // ---- C04 on the compact tessellation: normals away from the left generator, closure, divergence
        let mut closure = DVec3::ZERO;
        let mut div = 0.0;
        let mut area_sum = 0.0;
        for f in vc.faces(vor) {
            let nrm = f.normal();
            if (nrm.length() - 1.0).abs() > 1e-12 {
                fails.push(Fail { prop: "C04", what: "face normal is not a unit vector".into(), detail: json!({"cell": ci, "normal": nrm.to_array()}) });
            }
            for k in inp.dim..3 {
                if nrm[k] != 0.0 {
                    fails.push(Fail { prop: "C08", what: "reported face normal leaves the active subspace".into(), detail: json!({"cell": ci, "normal": nrm.to_array()}) });
                }
            }
            let left = f.left();
            let lgen = gens_proj(&gens, left, inp);
            // direction from the left generator to what is on the other side
            let target = match f.right() {
                Some(r) => gens_proj(&gens, r, inp) + f.shift().unwrap_or(DVec3::ZERO),
                None => f.centroid(),
            };
            if f.right().is_some() {
                if f.area() > tol_area && !(nrm.dot(target - lgen) > 0.0) {
                    fails.push(Fail {
                        prop: "C04",
                        what: "face normal does not point away from the left generator".into(),
                        detail: json!({"cell": ci, "left": left, "right": f.right(), "normal": nrm.to_array()}),
                    });
                }
            } else if f.area() > tol_area {
                // boundary face: outward through a wall - the normal is +-e_k and the centroid lies
                // on the wall on that side of the box
                let anchor = emb.anchor(inp);
                let k = (0..3).max_by(|&a, &b| nrm[a].abs().partial_cmp(&nrm[b].abs()).unwrap()).unwrap();
                let wall = if nrm[k] > 0.0 { anchor[k] + width[k] } else { anchor[k] };
                let axis_ok = (0..3).all(|m| if m == k { nrm[m].abs() == 1.0 } else { nrm[m] == 0.0 });
                if !axis_ok || (f.centroid()[k] - wall).abs() > 50.0 * tl || inp.per {
                    fails.push(Fail {
                        prop: "C04",
                        what: "boundary face normal does not point outward through its wall".into(),
                        detail: json!({"cell": ci, "left": left, "normal": nrm.to_array(), "centroid": f.centroid().to_array(), "wall_coordinate": wall}),
                    });
                }
            }
            // centroid on the bisector plane / wall
            if let Some(_r) = f.right() {
                let mid = 0.5 * (lgen + target);
                let off = (f.centroid() - mid).dot((target - lgen).normalize());
                if f.area() > 100.0 * tol_area && off.abs() > 50.0 * tl {
                    fails.push(Fail { prop: "C04", what: "face centroid is off the bisector plane".into(), detail: json!({"cell": ci, "left": left, "right": f.right(), "off": off}) });
                }
            }
            let (n_out, cen) = if left == ci && !(f.right() == Some(ci) && f.shift().is_none()) {
                (nrm, f.centroid())
            } else {
                (-nrm, f.centroid())
            };
            closure += f.area() * n_out;
            // the centroid of a face of negligible area is meaningless (it is reported as the origin when the
            // area integral is not positive): such faces are left out of the divergence sum
            if f.area() > tol_area {
                div += f.area() * n_out.dot(cen - gens_proj(&gens, ci, inp));
            }
            area_sum += f.area();
        }
        if closure.length() > 20.0 * tol_area {
            fails.push(Fail { prop: "C04", what: "area-weighted outward normals do not sum to zero".into(), detail: json!({"cell": ci, "residual": closure.to_array(), "tol": 20.0 * tol_area, "area_sum": area_sum}) });
        }
        if (div / inp.dim as f64 - vc.volume()).abs() > 4.0 * tol_vol {
            fails.push(Fail { prop: "C04", what: "divergence theorem: (1/d) sum area n.(c-g) differs from the volume".into(), detail: json!({"cell": ci, "lhs": div / inp.dim as f64, "volume": vc.volume()}) });
        }
        // ---- C13/C14: integrator's integrals equal the stored values; downstream cell probe
        let vci = cell.compute_cell_integral::<(), VolumeCentroidIntegral>(());
        if vci.volume.to_bits() != vc.volume().to_bits() || hex3(vci.centroid) != hex3(vc.centroid()) {
            fails.push(Fail { prop: "C13", what: "VolumeCentroidIntegral through the integrator differs bitwise from the stored cell".into(), detail: json!({"cell": ci, "integrator": vci.volume, "stored": vc.volume()}) });
        }
        let pc = cell.compute_cell_integral::<(), ProbeCell>(());
        if (pc.vol - exp.vol).abs() > tol_vol {
            fails.push(Fail { prop: "C14", what: "signed tetrahedra fed to a downstream cell integral do not sum to the cell volume".into(), detail: json!({"cell": ci, "got": pc.vol, "expected": exp.vol}) });
        }
    }
    fails
}

fn gens_proj(gens: &[DVec3], i: usize, inp: &LInput) -> DVec3 {
    let mut g = gens[i];
    for k in inp.dim..3 {
        g[k] = 0.0;
    }
    g
}

/// C06 on the implementation alone (a second, specification-independent route): the periodic
/// result equals the central block of the NON-periodic tessellation of the 3^d-fold replicated
/// generators in the tripled box, and is invariant under translation of all generators (wrapped).
fn periodic_relations(inp: &LInput, emb: &Embedding, obs: &Observed, seed: u64, stats: &mut Stats) -> Vec<Fail> {
    let mut fails = vec![];
    let integ = match &obs.integ {
        Ok(i) => i,
        Err(_) => return fails,
    };
    let n = inp.gens.len();
    if !inp.per || n > 16 {
        return fails;
    }
    let gens = emb.generators(inp);
    let anchor = emb.anchor(inp);
    let width = emb.width(inp);
    let tl = emb.tol_len(inp);
    let scale = emb.scale(inp);
    let d = inp.dim as i32;
    // faces are (d-1)-dimensional in the active subspace times unit thickness on the unused axes: a 1D face is the unit
    // square (tolerance relative to 1), a 2D face a segment x 1, a 3D face a polygon
    let tol_area = if d == 1 { 20.0 * (tl / scale) } else { 20.0 * tl * scale.powi(d - 2) };
    let tol_vol = 50.0 * tl * scale.powi(d - 1);
    let dim = inp.dimensionality();
    // ---- replicated reflective run
    let mut shifts: Vec<[i64; 3]> = vec![];
    for a in -1..=1i64 {
        for b in if inp.dim >= 2 { -1..=1i64 } else { 0..=0 } {
            for c in if inp.dim >= 3 { -1..=1i64 } else { 0..=0 } {
                shifts.push([a, b, c]);
            }
        }
    }
    let zero_pos = shifts.iter().position(|s| *s == [0, 0, 0]).unwrap();
    let mut rep: Vec<DVec3> = vec![];
    for s in &shifts {
        for g in &gens {
            let mut p = *g;
            for k in 0..inp.dim {
                p[k] += s[k] as f64 * width[k];
            }
            rep.push(p);
        }
    }
    let mut ranchor = anchor;
    let mut rwidth = width;
    for k in 0..inp.dim {
        ranchor[k] -= width[k];
        rwidth[k] *= 3.0;
    }
    let mut mask = vec![false; rep.len()];
    for i in 0..n {
        mask[zero_pos * n + i] = true;
    }
    let r = guarded(|| VoronoiIntegrator::build(&rep, Some(&mask), ranchor, rwidth, dim, false));
    match r {
        Err(_) => stats.replica_panics += 1,
        Ok(rint) => {
            stats.replica_runs += 1;
            for i in 0..n {
                let (pc, rc) = match (integ.get_cell_at(i), rint.get_cell_at(zero_pos * n + i)) {
                    (Some(a), Some(b)) => (a, b),
                    _ => continue,
                };
                let pv = pc.compute_cell_integral::<(), VolumeCentroidIntegral>(());
                let rv = rc.compute_cell_integral::<(), VolumeCentroidIntegral>(());
                if (pv.volume - rv.volume).abs() > tol_vol || (pv.centroid - rv.centroid).length() > 50.0 * tl {
                    fails.push(Fail { prop: "C06", what: "periodic cell differs from the central block of the replicated non-periodic tessellation".into(),
                        detail: json!({"cell": i, "periodic_volume": pv.volume, "replicated_volume": rv.volume}) });
                }
                let mut pf: BTreeMap<(usize, [i64; 3]), f64> = BTreeMap::new();
                for f in pc.compute_face_integrals::<(), ProbeFace>(()) {
                    if let Some(j) = f.right() {
                        let (s, _) = shift_index(f.shift(), width);
                        *pf.entry((j, s)).or_insert(0.0) += f.integral().area;
                    } else if f.integral().area > tol_area && f.integral().plane_idx < 2 * inp.dim {
                        fails.push(Fail { prop: "C06", what: "boundary face along a periodic axis".into(), detail: json!({"cell": i, "area": f.integral().area}) });
                    }
                }
                let mut rf: BTreeMap<(usize, [i64; 3]), f64> = BTreeMap::new();
                for f in rc.compute_face_integrals::<(), ProbeFace>(()) {
                    if let Some(j) = f.right() {
                        *rf.entry((j % n, shifts[j / n])).or_insert(0.0) += f.integral().area;
                    }
                }
                let keys: std::collections::BTreeSet<_> = pf.keys().chain(rf.keys()).cloned().collect();
                for k in keys {
                    let a = pf.get(&k).cloned().unwrap_or(0.0);
                    let b = rf.get(&k).cloned().unwrap_or(0.0);
                    if (a - b).abs() > tol_area {
                        fails.push(Fail { prop: "C06", what: "neighbour relation / face area differs from the replicated non-periodic tessellation".into(),
                            detail: json!({"cell": i, "ngb": k.0, "shift": k.1, "periodic_area": a, "replicated_area": b}) });
                    }
                }
            }
        }
    }
    // ---- translation invariance
    let mut rng = seed ^ 0x9E3779B97F4A7C15;
    let mut next = || {
        rng ^= rng << 13;
        rng ^= rng >> 7;
        rng ^= rng << 17;
        (rng >> 11) as f64 / (1u64 << 53) as f64
    };
    for trial in 0..3 {
        let mut t = DVec3::ZERO;
        for k in 0..inp.dim {
            t[k] = if trial != 1 { (next() * 4.0).floor() * emb.h } else { (next() - 0.5) * 3.0 * width[k] };
        }
        // trial 2: generators that land on the lower wall of a periodic axis are put on the UPPER wall instead (anchor + width
        // exactly: inside the closed box, distinct from the others modulo the period)
        let upper = trial == 2;
        let moved: Vec<DVec3> = gens.iter().map(|g| {
            let mut p = *g + t;
            for k in 0..inp.dim {
                let mut r = (p[k] - anchor[k]) % width[k];
                if r < 0.0 { r += width[k]; }
                if r >= width[k] { r = 0.0; }
                if upper && r == 0.0 { r = width[k]; }
                p[k] = anchor[k] + r;
            }
            p
        }).collect();
        let r = guarded(|| Voronoi::build(&moved, anchor, width, dim, true));
        let base = match &obs.vor { Ok(v) => v, Err(_) => break };
        match r {
            Err(_) => stats.replica_panics += 1,
            Ok(tv) => {
                stats.translations += 1;
                for i in 0..n {
                    let a = base.cells()[i].volume();
                    let b = tv.cells()[i].volume();
                    if (a - b).abs() > tol_vol {
                        fails.push(Fail { prop: "C06", what: "cell measure changes under translation of all generators".into(),
                            detail: json!({"cell": i, "before": a, "after": b, "translation": t.to_array()}) });
                    }
                    let mut fa: Vec<f64> = base.cells()[i].faces(base).map(|f| f.area()).filter(|x| *x > tol_area).collect();
                    let mut fb: Vec<f64> = tv.cells()[i].faces(&tv).map(|f| f.area()).filter(|x| *x > tol_area).collect();
                    fa.sort_by(|x, y| x.partial_cmp(y).unwrap());
                    fb.sort_by(|x, y| x.partial_cmp(y).unwrap());
                    let same = fa.len() == fb.len() && fa.iter().zip(fb.iter()).all(|(x, y)| (x - y).abs() <= 2.0 * tol_area);
                    if !same {
                        // faces within 2*tol of the threshold may appear on one side only
                        let sa: f64 = fa.iter().sum();
                        let sb: f64 = fb.iter().sum();
                        if (sa - sb).abs() > (fa.len() + fb.len()) as f64 * tol_area {
                            fails.push(Fail { prop: "C06", what: "face areas change under translation of all generators".into(),
                                detail: json!({"cell": i, "before": fa, "after": fb, "translation": t.to_array()}) });
                        }
                    }
                }
            }
        }
    }
    fails
}

#[derive(Default)]
pub struct Stats {
    pub replica_runs: usize,
    pub replica_panics: usize,
    pub translations: usize,
    pub inputs: usize,
    pub runs: usize,
    pub cells_total: usize,
    pub cells_compared: usize,
    pub faces_expected: usize,
    pub exact_calls: u64,
    pub runs_with_exact: usize,
    pub traced_cells: usize,
    pub panics: usize,
}

/// Turn the recorded builder events of one run into compact per-cell trace lines for VCellTrace.
fn trace_lines(inp: &LInput, emb: &Embedding, obs: &Observed, out: &mut Vec<Value>, max_cells: usize, stats: &mut Stats) {
    let width = emb.width(inp);
    let mut per_cell: BTreeMap<usize, Vec<&Event>> = BTreeMap::new();
    for (_, ev) in obs.events.iter() {
        let c = match ev {
            Event::CellInit { cell } => *cell,
            Event::Visit { cell, .. } => *cell,
            Event::Terminate { cell } => *cell,
            Event::ClipTest { cell, .. } => *cell,
            Event::ClipDone { cell, .. } => *cell,
            _ => continue,
        };
        per_cell.entry(c).or_default().push(ev);
    }
    let panicked = obs.integ.is_err();
    let mut emitted = 0;
    for (c, evs) in per_cell.iter() {
        if emitted >= max_cells {
            break;
        }
        let mut lines: Vec<Value> = vec![];
        let mut cur: Option<(usize, [i64; 3])> = None;
        let mut removed_by_test: Vec<[usize; 3]> = vec![];
        let mut open_clip = false;
        let mut complete = false;
        for ev in evs {
            match ev {
                Event::CellInit { .. } => {}
                Event::Visit { ngb, shift, .. } => {
                    let (s, _) = shift_index(shift.map(DVec3::from_array), width);
                    cur = Some((*ngb, s));
                    removed_by_test.clear();
                    open_clip = true;
                }
                Event::Terminate { .. } => {
                    let (j, s) = cur.unwrap();
                    lines.push(json!({"e": "term", "j": j, "s": s}));
                    open_clip = false;
                    complete = true;
                }
                Event::ClipTest { dual, filter, exact, .. } => {
                    let v = exact.unwrap_or(*filter);
                    if v < 0.0 {
                        removed_by_test.push(*dual);
                    }
                }
                Event::ClipDone { removed, created, .. } => {
                    let (j, s) = cur.unwrap();
                    lines.push(json!({"e": "clip", "j": j, "s": s, "rem": removed, "new": created}));
                    open_clip = false;
                }
                _ => {}
            }
        }
        if open_clip && panicked {
            // the builder died inside this clip: what it had decided to remove is known from the tests
            let (j, s) = cur.unwrap();
            lines.push(json!({"e": "clipfail", "j": j, "s": s, "rem": removed_by_test}));
        }
        let final_duals: Option<Vec<[usize; 3]>> = match &obs.integ {
            Ok(i) => i.get_cell_at(*c).map(|cell| cell.vertices.iter().map(|v| v.dual).collect()),
            Err(_) => None,
        };
        out.push(json!({"e": "cell", "c": c}));
        out.extend(lines);
        out.push(json!({"e": "end", "c": c, "complete": complete || !open_clip,
            "hasverts": final_duals.is_some(), "verts": final_duals.unwrap_or_default()}));
        emitted += 1;
        stats.traced_cells += 1;
    }
}

pub fn main_replay(args: &[String]) -> i32 {
    let mut cases_path = String::new();
    let mut out_path = String::new();
    let mut trace_path: Option<String> = None;
    let mut tier = "quick".to_string();
    let mut seed = 0u64;
    let mut max_trace_cells = 400usize;
    let mut only_emb: Option<usize> = None;
    let mut ftrace_path: Option<String> = None;
    let mut max_ftrace_cells = 4000usize;
    let mut i = 0;
    while i < args.len() {
        match args[i].as_str() {
            "--cases" => { cases_path = args[i + 1].clone(); i += 1 }
            "--out" => { out_path = args[i + 1].clone(); i += 1 }
            "--trace" => { trace_path = Some(args[i + 1].clone()); i += 1 }
            "--tier" => { tier = args[i + 1].clone(); i += 1 }
            "--seed" => { seed = args[i + 1].parse().unwrap(); i += 1 }
            "--max-trace-cells" => { max_trace_cells = args[i + 1].parse().unwrap(); i += 1 }
            "--emb" => { only_emb = Some(args[i + 1].parse().unwrap()); i += 1 }
            "--ftrace" => { ftrace_path = Some(args[i + 1].clone()); i += 1 }
            "--max-ftrace-cells" => { max_ftrace_cells = args[i + 1].parse().unwrap(); i += 1 }
            _ => {}
        }
        i += 1;
    }
    install_quiet_panic_hook();
    // group cases by input
    let f = std::fs::File::open(&cases_path).expect("cases file");
    let mut groups: BTreeMap<String, (LInput, BTreeMap<usize, SpecCell>)> = BTreeMap::new();
    let mut order: Vec<String> = vec![];
    for line in std::io::BufReader::new(f).lines() {
        let line = line.unwrap();
        if line.trim().is_empty() {
            continue;
        }
        let v: Value = serde_json::from_str(&line).expect("case json");
        let inp = LInput::from_json(&v["inp"]);
        let key = inp.key();
        let sc = parse_cell(&v);
        if !groups.contains_key(&key) {
            order.push(key.clone());
        }
        groups.entry(key).or_insert_with(|| (inp, BTreeMap::new())).1.insert(sc.cell, sc);
    }
    let mut stats = Stats::default();
    let mut failures: Vec<Value> = vec![];
    let mut trace: Vec<Value> = vec![];
    let mut samples: Vec<Value> = vec![];
    let mut trace_budget = max_trace_cells;
    let mut ftrace: Vec<Value> = vec![];
    let mut ftrace_budget = max_ftrace_cells;
    let mut untraced_failures = 0usize;
    // The trace budget is spread over ALL inputs (every stride-th input is recorded, both first embeddings), so that the
    // recorded histories are not only those of the first - smallest - inputs: larger cells and cells that stop on the
    // safety radius (Terminate events) are validated by VCellTrace as well.
    // Half of the budget goes to the seeded larger inputs (id > 0), half to the exhaustive families (id = 0).
    let is_sim = |k: &String| groups[k].0.id > 0;
    let cells_sim: usize = order.iter().filter(|k| is_sim(k)).map(|k| groups[k].1.len() * 2).sum();
    let cells_fam: usize = order.iter().filter(|k| !is_sim(k)).map(|k| groups[k].1.len() * 2).sum();
    let half = std::cmp::max(1, max_trace_cells / 2);
    let budget_fam = if cells_sim == 0 { max_trace_cells.max(1) } else { half };
    let stride_fam = std::cmp::max(1, (cells_fam + budget_fam - 1) / budget_fam);
    let stride_sim = std::cmp::max(1, (cells_sim + half - 1) / half);
    let mut n_fam = 0usize;
    let mut n_sim = 0usize;
    for (gi, key) in order.iter().enumerate() {
        let (inp, cells) = &groups[key];
        stats.inputs += 1;
        let embs = Embeddings::list(&tier, inp, seed, gi);
        let picked = if inp.id > 0 {
            n_sim += 1;
            (n_sim - 1) % stride_sim == (seed as usize) % stride_sim
        } else {
            n_fam += 1;
            (n_fam - 1) % stride_fam == (seed as usize) % stride_fam
        };
        let mut tokens: Vec<(String, String)> = vec![];
        for (ei, emb) in embs.iter().enumerate() {
            if let Some(o) = only_emb {
                if o != ei {
                    continue;
                }
            }
            let want_trace = trace_path.is_some() && trace_budget > 0 && ei <= 1 && picked;
            let obs = run_library(inp, emb, want_trace);
            stats.runs += 1;
            stats.exact_calls += obs.exact_calls;
            if obs.exact_calls > 0 {
                stats.runs_with_exact += 1;
            }
            if obs.vor.is_err() || obs.integ.is_err() {
                stats.panics += 1;
            }
            let mut fl = compare(inp, emb, cells, &obs, &mut stats);
            if inp.per && ei <= 1 {
                fl.extend(periodic_relations(inp, emb, &obs, seed ^ (gi as u64), &mut stats));
            }
            if !fl.is_empty() && ftrace_path.is_some() {
                // re-run the failing case with event recording on, for classification by VCellTrace
                if ftrace_budget > 0 {
                    let obs2 = run_library(inp, emb, true);
                    let before = stats.traced_cells;
                    ftrace.push(json!({"e": "case", "inp": inp.to_json(), "emb": ei, "g": gi}));
                    trace_lines(inp, emb, &obs2, &mut ftrace, usize::MAX, &mut stats);
                    ftrace_budget = ftrace_budget.saturating_sub(stats.traced_cells - before);
                } else {
                    untraced_failures += 1;
                }
            }
            for f in fl {
                failures.push(json!({
                    "prop": f.prop, "what": f.what, "detail": f.detail,
                    "input": inp.to_json(), "embedding": emb.to_json(), "emb_index": ei, "g": gi,
                }));
            }
            if want_trace {
                let before = stats.traced_cells;
                trace.push(json!({"e": "case", "inp": inp.to_json(), "emb": ei, "g": gi}));
                trace_lines(inp, emb, &obs, &mut trace, trace_budget, &mut stats);
                trace_budget = trace_budget.saturating_sub(stats.traced_cells - before);
            }
            // C08 token equality between junk and clean runs of the same (h, o)
            if let Ok(v) = &obs.vor {
                let tok: String = v.cells().iter().map(|c| format!("{}{}{}", hex(c.volume()), hex3(c.centroid()), hex(c.safety_radius()))).collect::<Vec<_>>().join("")
                    + &v.faces().iter().map(|f| format!("{}{}{}", hex(f.area()), hex3(f.centroid()), hex3(f.normal()))).collect::<Vec<_>>().join("");
                tokens.push((emb.name.clone(), tok));
            }
            if samples.len() < 3 && ei == 0 {
                samples.push(json!({"input": inp.to_json(), "embedding": emb.to_json(),
                    "volumes": obs.vor.as_ref().map(|v| v.cells().iter().map(|c| c.volume()).collect::<Vec<_>>()).unwrap_or_default()}));
            }
        }
        // junk vs clean
        for (name, tok) in tokens.iter() {
            if let Some(base) = name.strip_suffix("+junk").or(name.strip_suffix("+zerojunk")).or(name.strip_suffix("+nanjunk")) {
                if let Some((_, t0)) = tokens.iter().find(|(n, _)| n == base) {
                    if t0 != tok {
                        failures.push(json!({"prop": "C08", "what": "result depends on the unused coordinates (token mismatch between junk and clean run)",
                            "detail": {"embedding": name}, "input": inp.to_json(), "embedding": {"name": name}, "emb_index": -1, "g": gi}));
                    }
                }
            }
        }
    }
    let result = json!({
        "stats": {
            "inputs": stats.inputs, "runs": stats.runs, "cells_total": stats.cells_total,
            "cells_compared": stats.cells_compared, "faces_expected": stats.faces_expected,
            "exact_calls": stats.exact_calls, "runs_with_exact": stats.runs_with_exact,
            "traced_cells": stats.traced_cells, "panics": stats.panics,
            "untraced_failures": untraced_failures,
            "replica_runs": stats.replica_runs, "replica_panics": stats.replica_panics, "translations": stats.translations,
        },
        "failures": failures,
        "samples": samples,
    });
    std::fs::write(&out_path, serde_json::to_string(&result).unwrap()).unwrap();
    if let Some(tp) = ftrace_path {
        let mut f = std::io::BufWriter::new(std::fs::File::create(tp).unwrap());
        for l in ftrace {
            writeln!(f, "{}", serde_json::to_string(&l).unwrap()).unwrap();
        }
    }
    if let Some(tp) = trace_path {
        let mut f = std::io::BufWriter::new(std::fs::File::create(tp).unwrap());
        for l in trace {
            writeln!(f, "{}", serde_json::to_string(&l).unwrap()).unwrap();
        }
    }
    0
}


/// Debug helper: print the compact tessellation of one embedded lattice input.
pub fn main_dump(args: &[String]) -> i32 {
    let inp = LInput::from_json(&serde_json::from_str::<Value>(&args[0]).unwrap());
    let h: f64 = args[1].parse().unwrap();
    let o: Vec<f64> = args[2].split(',').map(|x| x.parse().unwrap()).collect();
    let emb = Embedding::new(h, [o[0], o[1], o[2]]);
    let obs = run_library(&inp, &emb, false);
    let v = obs.vor.unwrap();
    for (i, c) in v.cells().iter().enumerate() {
        println!("cell {} vol {:.17e} cen {:?} loc {:?} sr {}", i, c.volume(), c.centroid().to_array(), c.loc().to_array(), c.safety_radius());
        for f in c.faces(&v) {
            println!("   face l={} r={:?} shift={:?} area={:.17e} cen={:?} n={:?}", f.left(), f.right(), f.shift().map(|s| s.to_array()), f.area(), f.centroid().to_array(), f.normal().to_array());
        }
    }
    0
}

/// C11: bit tokens of the tessellations of (degenerate) lattice inputs, to be compared across
/// big-integer backends.  Input: NDJSON of lattice inputs.  A panic is part of the token.
pub fn main_tokens(args: &[String]) -> i32 {
    let mut inputs_path = String::new();
    let mut out_path = String::new();
    let mut i = 0;
    while i < args.len() {
        match args[i].as_str() {
            "--inputs" => { inputs_path = args[i + 1].clone(); i += 1 }
            "--out" => { out_path = args[i + 1].clone(); i += 1 }
            _ => {}
        }
        i += 1;
    }
    install_quiet_panic_hook();
    let txt = std::fs::read_to_string(&inputs_path).unwrap();
    let mut toks: Vec<Value> = vec![];
    let mut exact_total = 0u64;
    let mut runs_with_exact = 0usize;
    let mut nonzero_exact = 0usize;
    for line in txt.lines() {
        if line.trim().is_empty() {
            continue;
        }
        let inp = LInput::from_json(&serde_json::from_str::<Value>(line).unwrap());
        let embs = vec![Embedding::new(1.0, [0.0; 3]), Embedding::new(0.1, [-17.25, 3.5, 0.7]), Embedding::new(7.3, [1000.0, -1000.0, 250.0]),
                        Embedding::new(1.0 / 3.0, [1.0 / 7.0, 0.3, -0.9])];
        for (ei, emb) in embs.iter().enumerate() {
            verif::trace_take();
            let gens = emb.generators(&inp);
            let before = verif::exact_calls();
            verif::trace_enable(true);
            let r = guarded(|| Voronoi::build(&gens, emb.anchor(&inp), emb.width(&inp), inp.dimensionality(), inp.per));
            verif::trace_enable(false);
            let evs = verif::trace_take();
            // how many exact decisions were non-zero (the sign-extraction code of the backend matters for those)
            for (_, ev) in evs.iter() {
                if let Event::ClipTest { exact: Some(x), .. } = ev {
                    if *x != 0.0 {
                        nonzero_exact += 1;
                    }
                }
            }
            let ec = verif::exact_calls() - before;
            exact_total += ec;
            if ec > 0 {
                runs_with_exact += 1;
            }
            let tok = match r {
                Ok(v) => crate::tess::dump_token(&v),
                // which of several failing cells reports first depends on the thread schedule: the message is not part of the token
                Err(_) => "PANIC".to_string(),
            };
            toks.push(json!({"id": inp.id, "emb": ei, "tok": tok, "exact_calls": ec}));
        }
    }
    let result = json!({"tokens": toks, "exact_calls": exact_total, "runs_with_exact": runs_with_exact, "nonzero_exact_decisions": nonzero_exact});
    std::fs::write(&out_path, serde_json::to_string(&result).unwrap()).unwrap();
    0
}
