//! vvh - conformance harness binding the TLA+ specifications in /verif/spec to meshless_voronoi.
mod aux;
mod clip;
mod common;
mod helpers;
mod latt;
mod nn;
mod poly;
mod pred;
mod probe;
mod sched;
mod session;
mod tess;

fn main() {
    let args: Vec<String> = std::env::args().collect();
    if args.len() < 2 {
        eprintln!("usage: vvh <subcommand> ...");
        std::process::exit(2);
    }
    let rest = &args[2..];
    let code = match args[1].as_str() {
        "replay-cells" => latt::main_replay(rest),
        "tess" => tess::main_tess(rest),
        "sched" => sched::main_sched(rest),
        "session" => session::main_session(rest),
        "nn" => nn::main_nn(rest),
        "clip" => clip::main_clip(rest),
        "pred" => pred::main_pred(rest),
        "poly" => poly::main_poly(rest),
        "helpers" => helpers::main_helpers(rest),
        "aux" => aux::main_aux(rest),
        "tokens" => latt::main_tokens(rest),
        "dump-lattice" => latt::main_dump(rest),
        other => {
            eprintln!("unknown subcommand {}", other);
            2
        }
    };
    std::process::exit(code);
}
