//! Downstream implementations of the library's integral traits (this crate *is* a downstream
//! crate: that these compile is part of C14) used to observe cells and faces.

use glam::DVec3;
use meshless_voronoi::integrals::{CellIntegral, FaceIntegral};
use meshless_voronoi::{ConvexCell, ConvexCellMarker};

/// Face probe: remembers which clipping plane it was initialised for, the plane's normal and
/// point, and accumulates signed area, first moment and the worst distance of the fed triangles
/// from the plane.
#[derive(Clone, Debug, Default)]
pub struct ProbeFace {
    pub plane_idx: usize,
    pub cell_idx: usize,
    pub n_in: DVec3,
    pub p: DVec3,
    pub area: f64,
    pub moment: DVec3,
    pub ntri: usize,
    pub max_off_plane: f64,
    pub abs_area: f64,
}

impl FaceIntegral for ProbeFace {
    fn init<M: ConvexCellMarker>(cell: &ConvexCell<M>, clipping_plane_idx: usize) -> Self {
        let pl = &cell.clipping_planes[clipping_plane_idx].plane;
        ProbeFace {
            plane_idx: clipping_plane_idx,
            cell_idx: cell.idx,
            n_in: pl.n,
            p: pl.p,
            ..Default::default()
        }
    }
    fn collect(&mut self, v0: DVec3, v1: DVec3, v2: DVec3, gen: DVec3) {
        let n = 0.5 * (v1 - v0).cross(v2 - v0);
        let sign = (gen - v0).dot(n).signum();
        let a = n.length() * sign;
        self.area += a;
        self.abs_area += a.abs();
        self.moment += a * (v0 + v1 + v2) / 3.0;
        self.ntri += 1;
        for v in [v0, v1, v2] {
            self.max_off_plane = self.max_off_plane.max((v - self.p).dot(self.n_in).abs());
        }
    }
    fn finalize(self) -> Self {
        self
    }
}

impl ProbeFace {
    pub fn centroid(&self) -> DVec3 {
        if self.area != 0.0 {
            self.moment / self.area
        } else {
            DVec3::ZERO
        }
    }
}

/// Cell probe: signed volume and the ten monomial moments up to degree 2 over the signed
/// tetrahedra (closed-form tetrahedron integrals).
#[derive(Clone, Debug, Default)]
pub struct ProbeCell {
    pub cell_idx: usize,
    pub ntet: usize,
    pub vol: f64,
    pub m1: DVec3,
    /// xx, yy, zz, xy, xz, yz
    pub m2: [f64; 6],
    pub abs_vol: f64,
}

impl CellIntegral for ProbeCell {
    fn init<M: ConvexCellMarker>(cell: &ConvexCell<M>) -> Self {
        ProbeCell { cell_idx: cell.idx, ..Default::default() }
    }
    fn collect(&mut self, v0: DVec3, v1: DVec3, v2: DVec3, gen: DVec3) {
        let v = tet_signed_volume(v0, v1, v2, gen);
        self.ntet += 1;
        self.vol += v;
        self.abs_vol += v.abs();
        let p = [v0, v1, v2, gen];
        let s = v0 + v1 + v2 + gen;
        self.m1 += v * s / 4.0;
        // int x_a x_b over tet = V/20 * (sum_i x_a^i x_b^i + s_a s_b)
        let pairs = [(0, 0), (1, 1), (2, 2), (0, 1), (0, 2), (1, 2)];
        for (k, (a, b)) in pairs.iter().enumerate() {
            let mut acc = s[*a] * s[*b];
            for q in p.iter() {
                acc += q[*a] * q[*b];
            }
            self.m2[k] += v * acc / 20.0;
        }
    }
    fn finalize(self) -> Self {
        self
    }
}

/// Signed volume with the library's documented convention: positive if v0, v1, v2 are
/// counter-clockwise as seen from the apex.
pub fn tet_signed_volume(v0: DVec3, v1: DVec3, v2: DVec3, apex: DVec3) -> f64 {
    (v1 - v0).cross(v2 - v0).dot(apex - v0) / 6.0
}
