//! C14 / C15: cells with face information as polytopes, and the signed decompositions fed to
//! downstream integrals.  Records one trace line per 3D cell (validated by VFacesTrace / VDecomp)
//! and checks the geometric clauses numerically.

use crate::common::*;
use crate::probe::{ProbeCell, ProbeFace};
use crate::tess::{float_inputs, FInput};
use glam::DVec3;
use meshless_voronoi::integrals::{AreaCentroidIntegral, CellIntegral, VolumeCentroidIntegral};
use meshless_voronoi::{ConvexCell, Dimensionality, VoronoiIntegrator, WithFaces, WithoutFaces};
use rand::rngs::StdRng;
use rand::{Rng, SeedableRng};
use serde_json::{json, Value};
use std::io::Write;

fn shift_code(shift: Option<DVec3>, width: DVec3) -> i64 {
    match shift {
        None => -1,
        Some(s) => {
            let q = |k: usize| -> i64 { (s[k] / width[k]).round() as i64 };
            9 * (q(0) + 1) + 3 * (q(1) + 1) + (q(2) + 1)
        }
    }
}

struct Ctx<'a> {
    inp: &'a FInput,
    mask: &'a Option<Vec<bool>>,
    fails: &'a mut Vec<Value>,
}
impl<'a> Ctx<'a> {
    fn fail(&mut self, prop: &str, what: &str, detail: Value) {
        if self.fails.len() >= 60 {
            return; // enough to report; each record carries the whole input
        }
        self.fails.push(json!({"prop": prop, "what": what, "detail": detail, "input": self.inp.to_json(), "mask": self.mask}));
    }
}

fn moments_close(a: &ProbeCell, b: &ProbeCell, m: f64, absvol: f64) -> Option<String> {
    let t0 = 1e-9 * absvol + 1e-300;
    if (a.vol - b.vol).abs() > t0 {
        return Some(format!("volume {} vs {}", a.vol, b.vol));
    }
    if (a.m1 - b.m1).length() > 1e-9 * absvol * m + 1e-300 {
        return Some(format!("first moments {:?} vs {:?}", a.m1.to_array(), b.m1.to_array()));
    }
    for k in 0..6 {
        if (a.m2[k] - b.m2[k]).abs() > 1e-9 * absvol * m * m + 1e-300 {
            return Some(format!("second moment #{} {} vs {}", k, a.m2[k], b.m2[k]));
        }
    }
    None
}

fn check_cell(ctx: &mut Ctx, i: usize, co: &ConvexCell<WithoutFaces>, cw: &ConvexCell<WithFaces>, tl: f64, l: f64) -> Value {
    let g = cw.loc;
    let np = cw.clipping_planes.len();
    let nv = cw.vertices.len();
    // ---- C15: every vertex is the intersection of its three planes and inside all half-spaces
    for (vi, v) in cw.vertices.iter().enumerate() {
        for (pi, hs) in cw.clipping_planes.iter().enumerate() {
            let sd = (v.loc - hs.plane.p).dot(hs.plane.n);
            if v.dual.contains(&pi) {
                if sd.abs() > 50.0 * tl {
                    ctx.fail("C15", "a vertex is not on one of its three listed planes", json!({"cell": i, "vertex": vi, "plane": pi, "distance": sd}));
                }
            } else if sd < -50.0 * tl {
                ctx.fail("C15", "a vertex lies outside a half-space of the cell", json!({"cell": i, "vertex": vi, "plane": pi, "distance": sd}));
            }
        }
    }
    // ---- faces
    let nf = cw.face_count();
    let builtin_wf = cw.compute_face_integrals::<(), AreaCentroidIntegral>(());
    let probes_wf = cw.compute_face_integrals::<(), ProbeFace>(());
    let probes_wo = co.compute_face_integrals::<(), ProbeFace>(());
    let mut faces_json: Vec<Value> = vec![];
    let mut incid = vec![0usize; nv];
    let mut edges = 0usize;
    // independent integration from the face polygons (fan triangulation, generator as apex)
    let mut refp = ProbeCell::default();
    for fi in 0..nf {
        let fv = cw.face_vertices(fi);
        let k = fv.len();
        let pl = cw.clipping_plane(fi);
        // which clipping plane is it: found through the probe list (same plane order)
        let plane_idx = cw.clipping_planes.iter().position(|h| std::ptr::eq(&h.plane, pl)).unwrap_or(usize::MAX);
        edges += k;
        for &v in fv {
            if v < nv {
                incid[v] += 1;
            }
        }
        faces_json.push(json!({"plane": plane_idx, "verts": fv, "ngb": cw.neighbour(fi).map(|x| x as i64 + 1).unwrap_or(0),
                               "s": shift_code(cw.shift(fi), ctx.inp.width)}));
        if cw.face_vertex_count(fi) != k {
            ctx.fail("C15", "face_vertex_count disagrees with face_vertices", json!({"cell": i, "face": fi}));
        }
        if k < 3 {
            continue;
        }
        let pts: Vec<DVec3> = fv.iter().map(|&v| cw.vertices[v].loc).collect();
        let n_in = pl.n;
        // planarity
        for p in &pts {
            let off = (*p - pl.p).dot(n_in);
            if off.abs() > 50.0 * tl {
                ctx.fail("C15", "face polygon is not planar (vertex off the face plane)", json!({"cell": i, "face": fi, "off": off}));
            }
        }
        // convex and counter-clockwise about the inward normal
        let mut area2 = 0.0;
        for j in 0..k {
            let a = pts[j];
            let b = pts[(j + 1) % k];
            let c = pts[(j + 2) % k];
            let turn = (b - a).cross(c - b).dot(n_in);
            if turn < -50.0 * tl * l {
                ctx.fail("C15", "face polygon is not convex / not counter-clockwise about the inward plane normal",
                         json!({"cell": i, "face": fi, "corner": j, "turn": turn}));
            }
        }
        for j in 1..k - 1 {
            area2 += (pts[j] - pts[0]).cross(pts[j + 1] - pts[0]).dot(n_in);
            refp.collect(pts[0], pts[j], pts[j + 1], g);
        }
        let poly_area = 0.5 * area2;
        // area integral (built-in, with faces) equals the polygon area; and the probe without faces agrees
        let ai = builtin_wf.iter().zip(probes_wf.iter()).find(|(_, p)| p.integral().plane_idx == plane_idx).map(|(b, _)| b.integral().area);
        let tol_area = 50.0 * tl * l;
        match ai {
            Some(a) => {
                if (a - poly_area).abs() > tol_area {
                    ctx.fail("C15", "polygon area differs from the face's area integral", json!({"cell": i, "face": fi, "polygon": poly_area, "integral": a}));
                }
            }
            None => ctx.fail("C15", "a face with vertices has no face integral", json!({"cell": i, "face": fi})),
        }
        if let Some(pw) = probes_wo.iter().find(|p| p.integral().plane_idx == plane_idx) {
            let pr = pw.integral();
            if (pr.area - poly_area).abs() > tol_area {
                ctx.fail("C14", "signed areas of the triangles fed to a face integral (without faces) do not sum to the face area",
                         json!({"cell": i, "plane": plane_idx, "sum": pr.area, "polygon": poly_area}));
            }
            if pr.max_off_plane > 50.0 * tl {
                ctx.fail("C14", "a triangle fed to a face integral is off the face plane", json!({"cell": i, "plane": plane_idx, "off": pr.max_off_plane}));
            }
            if pw.right() != cw.neighbour(fi) || pw.shift().map(|s| s.to_array()) != cw.shift(fi).map(|s| s.to_array()) {
                ctx.fail("C15", "neighbour / shift accessors disagree with the face integrals", json!({"cell": i, "face": fi}));
            }
        }
    }
    for (vi, c) in incid.iter().enumerate() {
        if *c != 3 {
            ctx.fail("C15", "a vertex does not belong to exactly three faces", json!({"cell": i, "vertex": vi, "faces": c}));
        }
    }
    if 2 * nv as i64 - edges as i64 + 2 * nf as i64 != 4 {
        ctx.fail("C15", "V - E + F != 2", json!({"cell": i, "V": nv, "E2": edges, "F": nf}));
    }
    // ---- C14: moments up to degree 2 from the two decompositions and from the polygons
    let pc_wo = co.compute_cell_integral::<(), ProbeCell>(());
    let pc_wf = cw.compute_cell_integral::<(), ProbeCell>(());
    let m = cw.vertices.iter().map(|v| v.loc.abs().max_element()).fold(g.abs().max_element(), f64::max).max(l);
    let absvol = pc_wo.abs_vol.max(pc_wf.abs_vol).max(refp.abs_vol);
    if let Some(d) = moments_close(&pc_wo, &refp, m, absvol) {
        ctx.fail("C14", "signed tetrahedra (without faces) do not integrate polynomials like the cell", json!({"cell": i, "diff": d}));
    }
    if let Some(d) = moments_close(&pc_wf, &refp, m, absvol) {
        ctx.fail("C14", "tetrahedra (with faces) do not integrate polynomials like the cell", json!({"cell": i, "diff": d}));
    }
    if let Some(d) = moments_close(&pc_wf, &pc_wo, m, absvol) {
        ctx.fail("C14", "cells with and without stored faces give different integrals", json!({"cell": i, "diff": d}));
    }
    // built-in integrals agree between the two representations
    let a = co.compute_cell_integral::<(), VolumeCentroidIntegral>(());
    let b = cw.compute_cell_integral::<(), VolumeCentroidIntegral>(());
    if (a.volume - b.volume).abs() > 1e-9 * absvol || (a.centroid - b.centroid).length() > 100.0 * tl {
        ctx.fail("C13", "volume/centroid differ between cells with and without stored faces", json!({"cell": i, "wo": a.volume, "wf": b.volume}));
    }
    // ---- discard o with_faces = identity, with_faces again gives the same faces
    let back = cw.clone().discard_faces();
    let same_v = back.vertices.len() == co.vertices.len()
        && back.vertices.iter().zip(co.vertices.iter()).all(|(x, y)| x.dual == y.dual && hex3(x.loc) == hex3(y.loc));
    let same_p = back.clipping_planes.len() == co.clipping_planes.len()
        && back.clipping_planes.iter().zip(co.clipping_planes.iter()).all(|(x, y)| x.right_idx == y.right_idx && hex3(x.plane.n) == hex3(y.plane.n) && hex3(x.plane.p) == hex3(y.plane.p));
    if !same_v || !same_p || back.idx != co.idx || hex3(back.loc) != hex3(co.loc) {
        ctx.fail("C15", "discarding the faces does not give back the original cell", json!({"cell": i}));
    }
    let again = back.with_faces();
    let same_faces = again.face_count() == nf && (0..nf).all(|f| again.face_vertices(f) == cw.face_vertices(f) && again.neighbour(f) == cw.neighbour(f));
    if !same_faces {
        ctx.fail("C15", "re-deriving the faces after discarding them gives different faces", json!({"cell": i}));
    }
    // ---- trace line
    let mut triwo = vec![0usize; np];
    let mut triwf = vec![0usize; np];
    for p in probes_wo.iter() {
        triwo[p.integral().plane_idx] = p.integral().ntri;
    }
    for p in probes_wf.iter() {
        triwf[p.integral().plane_idx] = p.integral().ntri;
    }
    let planes: Vec<Value> = cw.clipping_planes.iter().map(|h| json!({"j": h.right_idx.map(|r| r as i64 + 1).unwrap_or(0), "s": shift_code(h.shift, ctx.inp.width)})).collect();
    json!({"id": ctx.inp.id, "cell": i, "np": np, "duals": cw.vertices.iter().map(|v| v.dual).collect::<Vec<_>>(),
           "planes": planes, "faces": faces_json, "count": nf, "ok": vec![true; np], "triwo": triwo, "triwf": triwf,
           "ntetwo": pc_wo.ntet, "ntetwf": pc_wf.ntet, "dataidx": pc_wo.cell_idx})
}


#[allow(clippy::too_many_arguments)]
fn serve(ctx: &mut Ctx, integ: &VoronoiIntegrator<WithoutFaces>, wf: &VoronoiIntegrator<WithFaces>, active: &[usize], n: usize,
         tl: f64, l: f64, lines: &mut Vec<Value>, biggest: &mut usize) {
    let active: Vec<usize> = active.to_vec();
            // ---- C14: integral vectors are in index order of the constructed cells, data goes to the right cell
            for (name, list) in [
                ("compute_cell_integrals (without faces)", integ.compute_cell_integrals::<ProbeCell>()),
                ("compute_cell_integrals (with faces)", wf.compute_cell_integrals::<ProbeCell>()),
                ("compute_cell_integrals_with_data", integ.compute_cell_integrals_with_data::<(), ProbeCell>(&vec![(); n])),
                ("compute_cell_integrals_with_data (with faces)", wf.compute_cell_integrals_with_data::<(), ProbeCell>(&vec![(); n])),
            ] {
                let got: Vec<usize> = list.iter().map(|p| p.cell_idx).collect();
                if got != active {
                    ctx.fail("C14", "cell integrals are not delivered in index order of the constructed cells",
                             json!({"call": name, "got": got, "constructed": active}));
                }
            }
            for (name, list) in [
                ("compute_face_integrals (with faces)", wf.compute_face_integrals::<ProbeFace>()),
                ("compute_face_integrals_with_data", integ.compute_face_integrals_with_data::<(), ProbeFace>(&vec![(); n])),
                ("compute_face_integrals_with_data (with faces)", wf.compute_face_integrals_with_data::<(), ProbeFace>(&vec![(); n])),
            ] {
                let got: Vec<(usize, usize)> = list.iter().map(|p| (p.integral().cell_idx, p.left())).collect();
                let sorted = got.windows(2).all(|w| w[0].0 <= w[1].0);
                if !sorted || got.iter().any(|(a, b)| a != b || !active.contains(a)) {
                    ctx.fail("C14", "face integrals are not attributed to / ordered by the constructed cells", json!({"call": name}));
                }
            }
            for k in 0..n {
                let (co, cw) = match (integ.get_cell_at(k), wf.get_cell_at(k)) {
                    (Some(a), Some(b)) => (a, b),
                    (None, None) => {
                        if active.contains(&k) {
                            ctx.fail("C14", "a selected cell is missing", json!({"cell": k}));
                        }
                        continue;
                    }
                    _ => {
                        ctx.fail("C14", "with_faces changed which generators have a cell", json!({"cell": k}));
                        continue;
                    }
                };
                if !active.contains(&k) || co.idx != k || cw.idx != k {
                    ctx.fail("C14", "get_cell_at returns a cell of another generator", json!({"asked": k, "without_faces": co.idx, "with_faces": cw.idx}));
                    continue;
                }
                let line = check_cell(ctx, k, co, cw, tl, l);
                *biggest = (*biggest).max((0..cw.face_count()).map(|fi| cw.face_vertex_count(fi)).max().unwrap_or(0));
                lines.push(line);
            }
}

pub fn main_poly(args: &[String]) -> i32 {
    let mut out_path = String::new();
    let mut trace_path = String::new();
    let mut seed = 0u64;
    let mut count = 20usize;
    let mut nmax = 30usize;
    let mut i = 0;
    while i < args.len() {
        match args[i].as_str() {
            "--out" => { out_path = args[i + 1].clone(); i += 1 }
            "--trace" => { trace_path = args[i + 1].clone(); i += 1 }
            "--seed" => { seed = args[i + 1].parse().unwrap(); i += 1 }
            "--count" => { count = args[i + 1].parse().unwrap(); i += 1 }
            "--nmax" => { nmax = args[i + 1].parse().unwrap(); i += 1 }
            _ => {}
        }
        i += 1;
    }
    install_quiet_panic_hook();
    let mut rng = StdRng::seed_from_u64(seed ^ 0x1415);
    let mut inputs = float_inputs(seed ^ 0xFACE, count, nmax, &[3]);
    // more inputs with generators exactly on the walls (the orientation of wall-face triangles is delicate there)
    let extra: Vec<FInput> = float_inputs(seed ^ 0x0A11, 11 * (2 + count / 6), nmax, &[3]).into_iter().filter(|x| x.kind == "onwall").collect();
    for mut e in extra {
        e.id = inputs.len();
        inputs.push(e);
    }
    // one input with two close pairs at the lower end of the range the `pairs` kind draws from (3e-7 and 6e-7 of the box): two
    // almost parallel bisectors in every cell that neighbours both; own random stream, the other inputs are unchanged
    {
        let mut r3 = StdRng::seed_from_u64(seed ^ 0x9A1125);
        let mut gens: Vec<DVec3> = (0..14).map(|_| DVec3::new(r3.gen_range(0.05..0.95), r3.gen_range(0.05..0.95), r3.gen_range(0.05..0.95))).collect();
        for (k, sep) in [3.2e-7, 6.0e-7].iter().enumerate() {
            let d = DVec3::new(r3.gen_range(-1.0..1.0), r3.gen_range(-1.0..1.0), r3.gen_range(-1.0..1.0)).normalize_or_zero();
            let q = gens[k] + d * *sep;
            gens.push(q);
        }
        let id = inputs.len();
        inputs.push(FInput { id, kind: "pairs".into(), gens, anchor: DVec3::ZERO, width: DVec3::ONE, dim: 3, per: false });
    }
    let mut fails: Vec<Value> = vec![];
    let mut f = std::io::BufWriter::new(std::fs::File::create(&trace_path).unwrap());
    let mut cells = 0usize;
    let mut runs = 0usize;
    let mut max_face = 0usize;
    let mut samples: Vec<Value> = vec![];
    let mut panics = 0usize;
    for inp in inputs.iter() {
        let n = inp.gens.len();
        let masks: Vec<Option<Vec<bool>>> = vec![None, Some((0..n).map(|_| rng.gen_bool(0.6)).collect()), Some((0..n).map(|k| k % 2 == 1).collect())];
        for mask in masks.iter() {
            let mref = mask.as_deref();
            let r = guarded(|| {
                let integ = VoronoiIntegrator::build(&inp.gens, mref, inp.anchor, inp.width, Dimensionality::ThreeD, inp.per);
                let wf = integ.clone().with_faces();
                (integ, wf)
            });
            let (integ, wf) = match r {
                Ok(x) => x,
                Err(_) => {
                    panics += 1;
                    continue;
                }
            };
            runs += 1;
            let l = inp.scale();
            // + conditioning of near-parallel bisectors: the decomposition projects the generator onto the intersection line of two
            // planes; for two generators at relative distance s the planes of a third cell with them meet at an angle ~ s and the
            // projection is off by eps / s^2 (1.5e-6 -> 4e-6 relative, measured): part of "up to rounding", not a defect
            let cond = f64::EPSILON / (inp.min_sep_rel() * inp.min_sep_rel()).max(1e-300);
            let tl = 1e-9 * l + 4096.0 * f64::EPSILON * (inp.anchor.abs().max_element() + 2.0 * l) + cond * l;
            let active: Vec<usize> = (0..n).filter(|&k| mref.map_or(true, |m| m[k])).collect();
            // everything below calls into the library: a panic there is data, not a harness crash
            let served = guarded(|| {
                let mut local_fails: Vec<Value> = vec![];
                let mut lines: Vec<Value> = vec![];
                let mut biggest = 0usize;
                {
                    let mut ctx = Ctx { inp, mask, fails: &mut local_fails };
                    serve(&mut ctx, &integ, &wf, &active, n, tl, l, &mut lines, &mut biggest);
                }
                (local_fails, lines, biggest)
            });
            match served {
                Ok((lf, lines, biggest)) => {
                    fails.extend(lf);
                    max_face = max_face.max(biggest);
                    for line in lines {
                        writeln!(f, "{}", serde_json::to_string(&line).unwrap()).unwrap();
                        cells += 1;
                    }
                }
                Err(msg) => {
                    for prop in ["C14", "C15"] {
                        fails.push(json!({"prop": prop, "what": "the library panicked while serving accessor / integral calls on a valid integrator",
                                          "detail": {"message": msg}, "input": inp.to_json(), "mask": mask}));
                    }
                }
            }
            if samples.len() < 2 {
                samples.push(json!({"input": inp.to_json(), "mask": mask}));
            }
        }
    }
    // ---- one GIANT cell: a generator inside a jittered shell of 11 000 generators: about 22 000 vertices, 11 000 faces and
    // more than 65 535 face-vertex connections (count thresholds of the per-cell face bookkeeping); only that cell is built and
    // checked (vertices, polygons, incidence, both decompositions) - too large to be recorded for TLC
    let mut giant_vertices = 0usize;
    {
        let m = 11000usize;
        let c = DVec3::splat(0.5);
        let mut gens = vec![c];
        for i in 0..m {
            let z = 1.0 - 2.0 * (i as f64 + 0.5) / m as f64;
            let r = (1.0 - z * z).sqrt();
            let phi = i as f64 * 2.399963229728653;
            let rad = 0.3 * (1.0 + 1e-5 * rng.gen_range(-1.0..1.0)); // (jitter far below the sagitta between neighbouring planes: every shell point is a face)
            gens.push(c + rad * DVec3::new(r * phi.cos(), r * phi.sin(), z));
        }
        let inp = FInput { id: inputs.len(), kind: "giant".into(), gens, anchor: DVec3::ZERO, width: DVec3::ONE, dim: 3, per: false };
        let mut mask = vec![false; inp.gens.len()];
        mask[0] = true;
        let mask = Some(mask);
        let built = guarded(|| {
            let integ = VoronoiIntegrator::build(&inp.gens, mask.as_deref(), inp.anchor, inp.width, Dimensionality::ThreeD, false);
            let co = integ.get_cell_at(0).unwrap().clone();
            let cw = co.clone().with_faces();
            (co, cw)
        });
        match built {
            Err(msg) => {
                for prop in ["C14", "C15"] {
                    fails.push(json!({"prop": prop, "what": "the library panicked while building / deriving the faces of a cell with ~22 000 vertices",
                                      "detail": {"message": msg}, "input": {"kind": "giant", "gens": []}, "mask": Value::Null}));
                }
            }
            Ok((co, cw)) => {
                giant_vertices = cw.vertices.len();
                let l = 1.0;
                let tl = 1e-9 * l + 4096.0 * f64::EPSILON * 2.0;
                let mut local: Vec<Value> = vec![];
                let r = guarded(|| {
                    let mut lf: Vec<Value> = vec![];
                    {
                        let mut ctx = Ctx { inp: &inp, mask: &mask, fails: &mut lf };
                        let _ = check_cell(&mut ctx, 0, &co, &cw, tl, l);
                    }
                    lf
                });
                match r {
                    Ok(lf) => local.extend(lf),
                    Err(msg) => local.push(json!({"prop": "C15", "what": "the library panicked while serving accessor / integral calls on a cell with ~22 000 vertices",
                                                  "detail": {"message": msg}})),
                }
                for mut fl in local.into_iter().take(20) {
                    // keep the replay file small: the input is described, not listed
                    fl["mask"] = Value::Null;
                    fl["input"] = json!({"kind": "giant", "gens": [], "note": "centre + Fibonacci shell of 11000 generators, radius 0.3 (1 +- 1e-5), seed-dependent jitter"});
                    fails.push(fl);
                }
                cells += 1;
            }
        }
    }
    // ---- requesting faces for 1D / 2D cells is rejected, for the whole integrator and for a single cell
    let lows = float_inputs(seed ^ 0x10D, 8, 12, &[1, 2]);
    let mut rejections = 0usize;
    for inp in lows.iter().filter(|x| x.dim < 3) {
        let dim = inp.dimensionality();
        let integ = match guarded(|| VoronoiIntegrator::build(&inp.gens, None, inp.anchor, inp.width, dim, inp.per)) {
            Ok(x) => x,
            Err(_) => continue,
        };
        let whole = guarded(|| integ.clone().with_faces().cells_iter().count());
        let single = guarded(|| integ.get_cell_at(0).unwrap().clone().with_faces().face_count());
        for (name, r) in [("VoronoiIntegrator::with_faces", whole), ("ConvexCell::with_faces", single)] {
            rejections += 1;
            if let Ok(x) = r {
                fails.push(json!({"prop": "C15", "what": "requesting faces for a 1D/2D cell is not rejected", "detail": {"call": name, "returned": x, "dim": inp.dim},
                                  "input": inp.to_json(), "mask": Value::Null}));
            }
        }
    }
    fails.truncate(300);
    let result = json!({"stats": {"inputs": inputs.len(), "runs": runs, "cells": cells, "largest_face": max_face, "rejections_checked": rejections, "panics": panics, "giant_cell_vertices": giant_vertices},
                        "failures": fails, "samples": samples});
    std::fs::write(&out_path, serde_json::to_string(&result).unwrap()).unwrap();
    0
}
