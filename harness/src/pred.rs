//! C10 / C11: the exact in-sphere predicate and the integer grid, replayed from the vectors TLC
//! printed from VPred (sign on the small grid, first-order data for co-spherical tuples).

use crate::common::*;
use glam::DVec3;
use meshless_voronoi::verif;
use meshless_voronoi::Dimensionality;
use rand::rngs::StdRng;
use rand::{Rng, SeedableRng};
use serde_json::{json, Value};
use std::io::BufRead;

fn p3(v: &Value) -> [i64; 3] {
    [v[0].as_i64().unwrap(), v[1].as_i64().unwrap(), v[2].as_i64().unwrap()]
}
fn sgn(x: f64) -> i64 {
    if x < 0.0 { -1 } else if x > 0.0 { 1 } else { 0 }
}
fn tr(p: [i64; 3], k: i64, t: [i64; 3]) -> [i64; 3] {
    [k * p[0] + t[0], k * p[1] + t[1], k * p[2] + t[2]]
}

pub fn main_pred(args: &[String]) -> i32 {
    let mut cases_path = String::new();
    let mut out_path = String::new();
    let mut seed = 0u64;
    let mut i = 0;
    while i < args.len() {
        match args[i].as_str() {
            "--cases" => { cases_path = args[i + 1].clone(); i += 1 }
            "--out" => { out_path = args[i + 1].clone(); i += 1 }
            "--seed" => { seed = args[i + 1].parse().unwrap(); i += 1 }
            _ => {}
        }
        i += 1;
    }
    install_quiet_panic_hook();
    let mut rng = StdRng::seed_from_u64(seed ^ 0x10);
    let mut failures: Vec<Value> = vec![];
    let mut n_tuples = 0usize;
    let mut n_evals = 0usize;
    let mut n_cosph = 0usize;
    let mut n_pert = 0usize;
    let mut signs: Vec<i64> = vec![]; // token material for cross-backend comparison
    let mut samples: Vec<Value> = vec![];
    let top: i64 = 1 << 52;
    let f = std::fs::File::open(&cases_path).expect("cases");
    for line in std::io::BufReader::new(f).lines() {
        let line = line.unwrap();
        if line.trim().is_empty() {
            continue;
        }
        let c: Value = serde_json::from_str(&line).unwrap();
        let (a, b, cc, d, v) = (p3(&c["a"]), p3(&c["b"]), p3(&c["c"]), p3(&c["d"]), p3(&c["v"]));
        let want = c["sign"].as_i64().unwrap();
        n_tuples += 1;
        let mut check = |a: [i64; 3], b: [i64; 3], cc: [i64; 3], d: [i64; 3], v: [i64; 3], want: i64, how: &str, failures: &mut Vec<Value>| {
            n_evals += 1;
            let r = guarded(|| verif::in_sphere_exact(&a, &b, &cc, &d, &v));
            let got = match r {
                Ok(x) => sgn(x),
                Err(_) => 99,
            };
            signs.push(got);
            if got != want {
                failures.push(json!({"prop": "C10", "what": format!("exact in-sphere predicate returns the wrong sign ({})", how),
                    "detail": {"a": a, "b": b, "c": cc, "d": d, "v": v, "expected": want, "got": got}, "tuple": c}));
            }
        };
        // (i) as is
        check(a, b, cc, d, v, want, "small grid", &mut failures);
        // swapping two vertices of the tetrahedron flips the sign
        check(a, cc, b, d, v, -want, "b and c swapped", &mut failures);
        // (ii) scaled and translated anywhere in [0, 2^52)
        for &k in &[3i64, 1 << 20, (1 << 40) + 7, 1 << 49] {
            let maxc = 3 * k + 1;
            let t = [rng.gen_range(1..top - maxc), rng.gen_range(1..top - maxc), rng.gen_range(1..top - maxc)];
            let t = if k == 1 << 49 { [rng.gen_range(1..(1i64 << 50)), rng.gen_range(1..(1i64 << 50)), top - maxc - 1] } else { t };
            check(tr(a, k, t), tr(b, k, t), tr(cc, k, t), tr(d, k, t), tr(v, k, t), want, "scaled and translated on the 52-bit grid", &mut failures);
            // (iii) co-spherical tuples: +-1 step of v
            if let Some(fo) = c["fo"].as_array() {
                for e in fo {
                    let ev = p3(&e["e"]);
                    let l = e["L"].as_i64().unwrap() as i128;
                    let m4 = e["m4"].as_i64().unwrap() as i128;
                    let val = (k as i128) * l + m4;
                    let w = if val < 0 { -1 } else if val > 0 { 1 } else { 0 };
                    let mut vv = tr(v, k, t);
                    for q in 0..3 {
                        vv[q] += ev[q];
                    }
                    n_pert += 1;
                    check(tr(a, k, t), tr(b, k, t), tr(cc, k, t), tr(d, k, t), vv, w, "co-spherical tuple, query moved by one grid unit", &mut failures);
                }
            }
        }
        if c["fo"].as_array().map(|x| !x.is_empty()).unwrap_or(false) {
            n_cosph += 1;
            if samples.len() < 2 {
                samples.push(c.clone());
            }
        }
    }
    // ---- the integer grid: range and monotonicity for every position the builder can query
    let mut n_boxes = 0usize;
    let mut n_pos = 0usize;
    let dims = [Dimensionality::OneD, Dimensionality::TwoD, Dimensionality::ThreeD];
    for trial in 0..400 {
        let dimi = trial % 3;
        let per = (trial / 3) % 2 == 0;
        let anchor = match trial % 5 {
            0 => DVec3::ZERO,
            1 => DVec3::new(-17.25, 3.5, 0.7),
            2 => DVec3::new(1e6, -1e6, 5e5),
            3 => DVec3::new(rng.gen_range(-1e3..1e3), rng.gen_range(-1e3..1e3), rng.gen_range(-1e3..1e3)),
            _ => DVec3::new(-14.17150624593099, 16.202089309692383, 26.540990829467773),
        };
        // (boxes smaller than the unit slab of the unused axes included: the unused axes of 1D / 2D are normalised to
        // [-0.5, 0.5] whatever the scale of the used ones, and their walls are mirrored through as well)
        let width = match (trial / 3 + trial / 7) % 7 {
            0 => DVec3::ONE,
            1 => DVec3::new(32.670213063557945, 4.626067479451496, 0.2923425038655587),
            2 => DVec3::new(rng.gen_range(1e-3..1e3), rng.gen_range(1e-3..1e3), rng.gen_range(1e-3..1e3)),
            3 => DVec3::new(0.3, 0.21, 0.11),
            4 => DVec3::splat(10f64.powf(rng.gen_range(-9.0..-0.5))),
            5 => DVec3::new(0.5, 0.5, 0.5),
            _ => DVec3::new(4.0, 2.0, 8.0),
        };
        // what the builder passes for low dimensionalities
        let mut a = anchor;
        let mut w = width;
        if dimi < 2 {
            if dimi < 1 {
                a.y = -0.5;
                w.y = 1.0;
            }
            a.z = -0.5;
            w.z = 1.0;
        }
        let bd = match guarded(|| verif::Boundary::cuboid(a, w, per, dims[dimi])) {
            Ok(b) => b,
            Err(m) => {
                failures.push(json!({"prop": "C10", "what": "constructing the grid panicked", "detail": {"message": m}}));
                continue;
            }
        };
        n_boxes += 1;
        // generators in the closed box
        let mut gens: Vec<DVec3> = vec![a, a + w, a + 0.5 * w];
        for _ in 0..6 {
            gens.push(a + DVec3::new(rng.gen_range(0.0..=1.0), rng.gen_range(0.0..=1.0), rng.gen_range(0.0..=1.0)) * w);
        }
        for g in gens.iter_mut() {
            for k in (dimi + 1)..3 {
                g[k] = 0.0; // projected generators
            }
        }
        // initial box of the cell (tripled along periodic active axes), its walls
        let mut lo = a;
        let mut hi = a + w;
        if per {
            for k in 0..=dimi {
                lo[k] = a[k] - w[k];
                hi[k] = a[k] + 2.0 * w[k];
            }
        }
        let mut pos: Vec<DVec3> = vec![];
        for g in &gens {
            pos.push(*g);
            // mirror images through every wall
            for k in 0..3 {
                let mut m = *g;
                m[k] = 2.0 * lo[k] - g[k];
                pos.push(m);
                let mut m = *g;
                m[k] = 2.0 * hi[k] - g[k];
                pos.push(m);
            }
            if per {
                for sx in -1..=1 {
                    for sy in -1..=1 {
                        for sz in -1..=1 {
                            let s = DVec3::new(sx as f64, if dimi >= 1 { sy as f64 } else { 0.0 }, if dimi >= 2 { sz as f64 } else { 0.0 });
                            pos.push(*g + s * w);
                        }
                    }
                }
            }
        }
        let mut mapped: Vec<(DVec3, [i64; 3])> = vec![];
        for p in &pos {
            n_pos += 1;
            match guarded(|| bd.iloc(*p)) {
                Ok(q) => {
                    if q.iter().any(|x| *x < 0 || *x >= top) {
                        failures.push(json!({"prop": "C10", "what": "a queried position maps outside [0, 2^52)",
                            "detail": {"anchor": a.to_array(), "width": w.to_array(), "periodic": per, "dim": dimi + 1, "pos": p.to_array(), "grid": q}}));
                    }
                    mapped.push((*p, q));
                }
                Err(m) => failures.push(json!({"prop": "C10", "what": "mapping a queried position to the grid panicked (domain assertion)",
                    "detail": {"anchor": a.to_array(), "width": w.to_array(), "periodic": per, "dim": dimi + 1, "pos": p.to_array(), "message": m}})),
            }
        }
        // the map must be a SIMILARITY on the used axes (same scale along each of them): the in-sphere test the grid
        // coordinates are fed to is not invariant under anisotropic scaling.  Equal displacements along two used axes
        // must give equal grid differences (up to the rounding of the map).
        if dimi >= 1 {
            let base = a + 0.25 * w;
            let step = 0.5 * (0..=dimi).map(|k| w[k]).fold(f64::INFINITY, f64::min);
            let mut diffs: Vec<i64> = vec![];
            for k in 0..=dimi {
                let mut p1 = base;
                p1[k] += step;
                if let (Ok(q0), Ok(q1)) = (guarded(|| bd.iloc(base)), guarded(|| bd.iloc(p1))) {
                    diffs.push(q1[k] - q0[k]);
                }
            }
            if let (Some(mx), Some(mn)) = (diffs.iter().max(), diffs.iter().min()) {
                // relative agreement to 1e-9 (the offsets of the box limit the absolute accuracy of the map)
                // (... and the probe positions base + step are themselves rounded to the ulp of the offset: relative 4 eps |a| / step)
                let mag = (0..=dimi).map(|k| a[k].abs() + w[k]).fold(0.0, f64::max);
                if (*mx - *mn) as f64 > (1e-9 + 8.0 * f64::EPSILON * mag / step) * (*mx as f64).abs() + 4096.0 {
                    failures.push(json!({"prop": "C10", "what": "the map from positions to the grid is not a similarity: equal steps along different used axes give different grid steps (the in-sphere test then decides about an ellipsoid)",
                        "detail": {"anchor": a.to_array(), "width": w.to_array(), "periodic": per, "dim": dimi + 1, "step": step, "grid_steps": diffs}}));
                }
            }
        }
        for k in 0..3 {
            let mut v: Vec<(f64, i64)> = mapped.iter().map(|(p, q)| (p[k], q[k])).collect();
            v.sort_by(|x, y| x.0.partial_cmp(&y.0).unwrap());
            for wnd in v.windows(2) {
                if wnd[0].1 > wnd[1].1 {
                    failures.push(json!({"prop": "C10", "what": "the map from positions to the grid is not monotone",
                        "detail": {"anchor": a.to_array(), "width": w.to_array(), "periodic": per, "dim": dimi + 1, "axis": k,
                                   "x0": wnd[0].0, "g0": wnd[0].1, "x1": wnd[1].0, "g1": wnd[1].1}}));
                    break;
                }
            }
        }
    }
    // token of all signs (for the cross-backend comparison of C11)
    let mut h: u64 = 0xcbf29ce484222325;
    for s in &signs {
        h ^= (*s + 2) as u64;
        h = h.wrapping_mul(0x100000001b3);
    }
    failures.truncate(200);
    let result = json!({"stats": {"tuples": n_tuples, "evaluations": n_evals, "cospherical_tuples": n_cosph, "perturbed_evaluations": n_pert,
                                  "boxes": n_boxes, "positions": n_pos},
                        "sign_token": format!("{:016x}", h), "failures": failures, "samples": samples});
    std::fs::write(&out_path, serde_json::to_string(&result).unwrap()).unwrap();
    0
}
