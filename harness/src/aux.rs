//! C20: auxiliary structures. knn: lattice particle sets through verif::space_knn, recorded for VAuxTrace.
//! Spheres: the exact minimal enclosing spheres TLC computed (VAux.MinSphere) replayed into Welzl / Epos6.
use crate::common::*;
use glam::DVec3;
use meshless_voronoi::verif;
use rand::rngs::StdRng;
use rand::{Rng, SeedableRng};
use serde_json::{json, Value};
use std::io::{BufRead, Write};

pub fn main_aux(args: &[String]) -> i32 {
    let mut knn_cases = String::new();
    let mut sphere_cases = String::new();
    let mut out_path = String::new();
    let mut trace_path = String::new();
    let mut seed = 0u64;
    let mut i = 0;
    while i < args.len() {
        match args[i].as_str() {
            "--knn-cases" => { knn_cases = args[i + 1].clone(); i += 1 }
            "--sphere-cases" => { sphere_cases = args[i + 1].clone(); i += 1 }
            "--out" => { out_path = args[i + 1].clone(); i += 1 }
            "--trace" => { trace_path = args[i + 1].clone(); i += 1 }
            "--seed" => { seed = args[i + 1].parse().unwrap(); i += 1 }
            _ => {}
        }
        i += 1;
    }
    install_quiet_panic_hook();
    let mut rng = StdRng::seed_from_u64(seed ^ 0x20);
    let mut failures: Vec<Value> = vec![];
    // ---------------- knn
    let mut knn_calls = 0usize;
    {
        let f = std::fs::File::open(&knn_cases).expect("knn cases");
        let mut out = std::io::BufWriter::new(std::fs::File::create(&trace_path).unwrap());
        for line in std::io::BufReader::new(f).lines() {
            let line = line.unwrap();
            if line.trim().is_empty() {
                continue;
            }
            let c: Value = serde_json::from_str(&line).unwrap();
            let h = c["h"].as_f64().unwrap();
            let o = DVec3::new(c["o"][0].as_f64().unwrap(), c["o"][1].as_f64().unwrap(), c["o"][2].as_f64().unwrap());
            let g = [c["G"][0].as_f64().unwrap(), c["G"][1].as_f64().unwrap(), c["G"][2].as_f64().unwrap()];
            let pts: Vec<DVec3> = c["pts"].as_array().unwrap().iter()
                .map(|p| o + h * DVec3::new(p[0].as_f64().unwrap(), p[1].as_f64().unwrap(), p[2].as_f64().unwrap())).collect();
            let width = h * DVec3::new(g[0], g[1], g[2]);
            let k = c["k"].as_u64().unwrap() as usize;
            let mcw = c["mcw"].as_f64().unwrap() * h;
            knn_calls += 1;
            let r = guarded(|| verif::space_knn(o, width, mcw, &pts, k));
            let l = json!({"id": c["id"], "pts": c["pts"], "k": k, "panic": r.is_err(), "nn": r.unwrap_or_default(),
                           "G": c["G"], "mcw": c["mcw"], "h": h});
            writeln!(out, "{}", serde_json::to_string(&l).unwrap()).unwrap();
        }
    }
    // ---------------- spheres
    let mut n_sets = 0usize;
    let mut n_evals = 0usize;
    let mut samples: Vec<Value> = vec![];
    {
        let f = std::fs::File::open(&sphere_cases).expect("sphere cases");
        let embs = [(1.0, DVec3::ZERO), (0.37, DVec3::new(1.5, -2.25, 0.75)), (12.5, DVec3::new(-100.0, 40.0, 7.0)),
            (2f64.powi(-30), DVec3::ZERO), (2f64.powi(30), DVec3::ZERO)];
        for line in std::io::BufReader::new(f).lines() {
            let line = line.unwrap();
            if line.trim().is_empty() {
                continue;
            }
            let c: Value = serde_json::from_str(&line).unwrap();
            n_sets += 1;
            if samples.len() < 2 && c["pts"].as_array().unwrap().len() >= 4 {
                samples.push(c.clone());
            }
            for (h, o) in embs.iter() {
                let mut pts: Vec<DVec3> = c["pts"].as_array().unwrap().iter()
                    .map(|p| *o + *h * DVec3::new(p[0].as_f64().unwrap(), p[1].as_f64().unwrap(), p[2].as_f64().unwrap())).collect();
                // the solvers must not depend on the order of the points
                for k in (1..pts.len()).rev() {
                    let j = rng.gen_range(0..=k);
                    pts.swap(k, j);
                }
                let w = c["c"][3].as_f64().unwrap();
                let centre = *o + *h * DVec3::new(c["c"][0].as_f64().unwrap() / w, c["c"][1].as_f64().unwrap() / w, c["c"][2].as_f64().unwrap() / w);
                let radius = *h * (c["r2"][0].as_f64().unwrap() / c["r2"][1].as_f64().unwrap()).sqrt();
                let tol = 1e-7 * (*h) * (1.0 + o.length() / *h);
                n_evals += 1;
                let describe = |what: &str, detail: Value| json!({"prop": "C20", "what": what, "detail": detail, "case": c, "embedding": {"h": h, "o": o.to_array()}});
                match guarded(|| verif::welzl(&pts)) {
                    Err(m) => failures.push(describe("Welzl panicked", json!({"message": m}))),
                    Ok((wc, wr)) => {
                        if !(wr.is_finite() && wc.is_finite()) || (wr - radius).abs() > tol || (wc - centre).length() > tol {
                            failures.push(describe("Welzl's sphere is not the minimal enclosing sphere", json!({"got_centre": wc.to_array(), "got_radius": wr, "centre": centre.to_array(), "radius": radius})));
                        }
                        for p in &pts {
                            if !(p.distance(wc) <= wr * (1.0 + 1e-9) + tol) {
                                failures.push(describe("Welzl's sphere does not contain a point", json!({"point": p.to_array(), "centre": wc.to_array(), "radius": wr})));
                                break;
                            }
                        }
                    }
                }
                match guarded(|| verif::epos6(&pts)) {
                    Err(m) => failures.push(describe("Epos6 panicked", json!({"message": m}))),
                    Ok((ec, er)) => {
                        if !(er.is_finite() && ec.is_finite()) || er < radius - tol {
                            failures.push(describe("Epos6's sphere is smaller than the minimal enclosing sphere or not finite", json!({"got_radius": er, "minimal": radius})));
                        }
                        for p in &pts {
                            if !(p.distance(ec) <= er * (1.0 + 1e-9) + tol) {
                                failures.push(describe("Epos6's sphere does not contain a point", json!({"point": p.to_array(), "centre": ec.to_array(), "radius": er})));
                                break;
                            }
                        }
                    }
                }
                // spheres of spheres: integer radii around the points
                let spheres: Vec<(DVec3, f64)> = pts.iter().enumerate().map(|(k, p)| (*p, *h * ((k % 3) as f64 + 0.5))).collect();
                match guarded(|| verif::epos6_spheres(&spheres)) {
                    Err(m) => failures.push(describe("Epos6 (spheres) panicked", json!({"message": m}))),
                    Ok((ec, er)) => {
                        for (p, r) in &spheres {
                            if !(p.distance(ec) + r <= er * (1.0 + 1e-9) + tol) {
                                failures.push(describe("Epos6's sphere of spheres does not contain a sphere", json!({"sphere": [p.to_array().to_vec(), vec![*r]], "centre": ec.to_array(), "radius": er})));
                                break;
                            }
                        }
                    }
                }
            }
        }
    }
    // a single point: the minimal enclosing sphere is the point itself
    for p in [DVec3::new(1.0, 2.0, 3.0), DVec3::ZERO, DVec3::new(-4.5, 0.25, 1e3)] {
        for (name, r) in [("Welzl", guarded(|| verif::welzl(&[p]))), ("Epos6", guarded(|| verif::epos6(&[p])))] {
            n_evals += 1;
            match r {
                Err(m) => failures.push(json!({"prop": "C20", "what": format!("{} panicked on a single point", name), "detail": {"message": m}, "case": {"pts": [p.to_array()]}})),
                Ok((c, r)) => {
                    if !(p.distance(c) <= r + 1e-12) {
                        failures.push(json!({"prop": "C20", "what": format!("{}: the sphere of a single point does not contain it", name),
                                             "detail": {"centre": c.to_array(), "radius": r}, "case": {"pts": [p.to_array()]}}));
                    }
                }
            }
        }
    }
    failures.truncate(300);
    let result = json!({"stats": {"knn_calls": knn_calls, "sphere_sets": n_sets, "sphere_evaluations": n_evals}, "failures": failures, "samples": samples});
    std::fs::write(&out_path, serde_json::to_string(&result).unwrap()).unwrap();
    0
}
