//! C17: record the candidate stream (verif::nn_sequence hook) for lattice inputs; validated by VNNTrace.
use crate::common::*;
use glam::DVec3;
use meshless_voronoi::verif;
use serde_json::{json, Value};
use std::io::{BufRead, Write};

pub fn main_nn(args: &[String]) -> i32 {
    let mut cases_path = String::new();
    let mut trace_path = String::new();
    let mut i = 0;
    while i < args.len() {
        match args[i].as_str() {
            "--cases" => { cases_path = args[i + 1].clone(); i += 1 }
            "--trace" => { trace_path = args[i + 1].clone(); i += 1 }
            _ => {}
        }
        i += 1;
    }
    install_quiet_panic_hook();
    let f = std::fs::File::open(&cases_path).expect("cases");
    let mut out = std::io::BufWriter::new(std::fs::File::create(&trace_path).unwrap());
    for line in std::io::BufReader::new(f).lines() {
        let line = line.unwrap();
        if line.trim().is_empty() {
            continue;
        }
        let c: Value = serde_json::from_str(&line).unwrap();
        let inp = LInput::from_json(&c);
        let h = c["emb"]["h"].as_f64().unwrap();
        let o = [c["emb"]["o"][0].as_f64().unwrap(), c["emb"]["o"][1].as_f64().unwrap(), c["emb"]["o"][2].as_f64().unwrap()];
        let mut emb = Embedding::new(h, o);
        if c["emb"]["junk"].as_bool().unwrap_or(false) {
            emb.junk = Some([1.0e9, -77.5, 3.25]);
        }
        let gens = emb.generators(&inp);
        let width = emb.width(&inp);
        let limit = c["limit"].as_u64().unwrap() as usize;
        let total = inp.gens.len() * if inp.per { 3usize.pow(inp.dim as u32) } else { 1 };
        for q in c["queries"].as_array().unwrap() {
            let qi = q.as_u64().unwrap() as usize;
            let r = guarded(|| verif::nn_sequence(&gens, qi, width, inp.dimensionality(), inp.per, limit));
            let seq: Vec<Value> = match &r {
                Ok(v) => v
                    .iter()
                    .map(|(j, s)| {
                        let sv = s.unwrap_or(DVec3::ZERO);
                        let idx = |k: usize| -> i64 { if inp.active(k) || sv[k] != 0.0 { (sv[k] / width[k]).round() as i64 } else { 0 } };
                        // a shift that is not an exact multiple of the width is reported as out of lattice (9)
                        let exact = (0..3).all(|k| sv[k] == 0.0 || (sv[k] / width[k]).round() * width[k] == sv[k]);
                        if exact { json!([j, idx(0), idx(1), idx(2), if s.is_some() { 1 } else { 0 }]) } else { json!([j, 9, 9, 9, 1]) }
                    })
                    .collect(),
                Err(_) => vec![],
            };
            let l = json!({"id": inp.id, "G": inp.g, "dim": inp.dim, "per": inp.per, "gens": inp.gens, "qi": qi,
                           "limit": limit, "full": limit >= total, "panic": r.is_err(), "seq": seq});
            writeln!(out, "{}", serde_json::to_string(&l).unwrap()).unwrap();
        }
    }
    0
}
