//! C18: clipping is independent of the storage order of the vertices.
//! Part A (spec -> impl): the CLIP cases TLC printed from VCellImpl (a reachable cell as plane list
//! + vertex triples, the next plane, the expected triples) are executed through the cfg-guarded hook
//! `verif::clip_cell` under many permutations of the vertex array and rotations of the triples.
//! Part B (histories): cells built by the library itself (with whatever state their reused
//! boundary-cycle object is in, many planes, many-edged faces) are clipped once more by an extra
//! generator through `verif::clip_existing`, again under permutations; all variants must agree.

use crate::common::*;
use crate::tess::float_inputs;
use glam::DVec3;
use meshless_voronoi::integrals::VolumeIntegral;
use meshless_voronoi::verif::{self, ClipSetup};
use meshless_voronoi::{ConvexCell, VoronoiIntegrator, WithoutFaces};
use rand::rngs::StdRng;
use rand::seq::SliceRandom;
use rand::{Rng, SeedableRng};
use serde_json::{json, Value};
use std::collections::BTreeSet;
use std::io::BufRead;

fn canon(t: [usize; 3]) -> [usize; 3] {
    if t[0] < t[1] && t[0] < t[2] {
        t
    } else if t[1] < t[0] && t[1] < t[2] {
        [t[1], t[2], t[0]]
    } else {
        [t[2], t[0], t[1]]
    }
}

fn rot(t: [usize; 3], r: usize) -> [usize; 3] {
    [t[r % 3], t[(r + 1) % 3], t[(r + 2) % 3]]
}

/// closed oriented surface with three distinct planes per vertex
fn closed(ts: &BTreeSet<[usize; 3]>) -> bool {
    let mut edges = BTreeSet::new();
    for t in ts {
        if t[0] == t[1] || t[1] == t[2] || t[0] == t[2] {
            return false;
        }
        for k in 0..3 {
            if !edges.insert((t[k], t[(k + 1) % 3])) {
                return false;
            }
        }
    }
    edges.iter().all(|(a, b)| edges.contains(&(*b, *a)))
}

fn cell_summary(cell: &ConvexCell<WithoutFaces>) -> (BTreeSet<[usize; 3]>, f64) {
    let ts: BTreeSet<[usize; 3]> = cell.vertices.iter().map(|v| canon(v.dual)).collect();
    let vol = cell.compute_cell_integral::<(), VolumeIntegral>(()).volume;
    (ts, vol)
}

pub fn main_clip(args: &[String]) -> i32 {
    let mut cases_path = String::new();
    let mut out_path = String::new();
    let mut seed = 0u64;
    let mut perms = 12usize;
    let mut fcount = 16usize;
    let mut i = 0;
    while i < args.len() {
        match args[i].as_str() {
            "--cases" => { cases_path = args[i + 1].clone(); i += 1 }
            "--out" => { out_path = args[i + 1].clone(); i += 1 }
            "--seed" => { seed = args[i + 1].parse().unwrap(); i += 1 }
            "--perms" => { perms = args[i + 1].parse().unwrap(); i += 1 }
            "--float-count" => { fcount = args[i + 1].parse().unwrap(); i += 1 }
            _ => {}
        }
        i += 1;
    }
    install_quiet_panic_hook();
    let mut rng = StdRng::seed_from_u64(seed ^ 0xC118);
    let mut failures: Vec<Value> = vec![];
    let mut n_cases = 0usize;
    let mut n_variants = 0usize;
    let mut n_nontrivial = 0usize;
    let mut max_removed = 0usize;
    let mut samples: Vec<Value> = vec![];
    // ---------------- Part A
    if !cases_path.is_empty() {
        let f = std::fs::File::open(&cases_path).expect("cases");
        // (no tiny-scale embedding here: below about 1e-9 the filter's absolute error floor sends EVERY test to the exact
        // predicate, which speaks about the snapped configuration also for vertices the exact machine kept as ties in EARLIER
        // clips - the prescribed cell is then not a state the builder reaches in that embedding; full builds at 2^-40 are
        // checked by the lattice pipeline)
        let embs = [Embedding::new(1.0, [0.0; 3]), Embedding::new(0.1, [-17.25, 3.5, 0.7])];
        for line in std::io::BufReader::new(f).lines() {
            let line = line.unwrap();
            if line.trim().is_empty() {
                continue;
            }
            let c: Value = serde_json::from_str(&line).unwrap();
            let inp = LInput::from_json(&c["inp"]);
            let cell = c["cell"].as_u64().unwrap() as usize;
            let verts: Vec<[usize; 3]> = c["verts"].as_array().unwrap().iter()
                .map(|t| [t[0].as_u64().unwrap() as usize, t[1].as_u64().unwrap() as usize, t[2].as_u64().unwrap() as usize]).collect();
            let expect: BTreeSet<[usize; 3]> = c["expect"].as_array().unwrap().iter()
                .map(|t| canon([t[0].as_u64().unwrap() as usize, t[1].as_u64().unwrap() as usize, t[2].as_u64().unwrap() as usize])).collect();
            let ties = c["ties"].as_u64().unwrap();
            // ties are decided on snapped coordinates: the specification's decision (keep) is only binding when
            // snapping is exact (reflective box whose active widths are powers of two, embedded with h = 1, o = 0)
            let exact_snap = !inp.per && (0..inp.dim).all(|k| [1, 2, 4, 8].contains(&inp.g[k]));
            let nrem = c["nrem"].as_u64().unwrap() as usize;
            n_cases += 1;
            if nrem >= 2 {
                n_nontrivial += 1;
            }
            max_removed = max_removed.max(nrem);
            for (ei, emb) in embs.iter().enumerate() {
                let gens = emb.generators(&inp);
                let width = emb.width(&inp);
                let anchor = emb.anchor(&inp);
                let sh = |s: &Value| -> Option<DVec3> {
                    let v = [s[0].as_i64().unwrap(), s[1].as_i64().unwrap(), s[2].as_i64().unwrap()];
                    if v == [0, 0, 0] { None } else { Some(DVec3::new(v[0] as f64 * width.x, v[1] as f64 * width.y, v[2] as f64 * width.z)) }
                };
                let planes: Vec<(usize, Option<DVec3>)> = c["planes"].as_array().unwrap().iter()
                    .map(|p| (p["j"].as_u64().unwrap() as usize, sh(&p["s"]))).collect();
                let cj = c["cand"]["j"].as_u64().unwrap() as usize;
                let cs = sh(&c["cand"]["s"]);
                let mut reference: Option<(BTreeSet<[usize; 3]>, f64)> = None;
                let mut ref_panicked = false;
                let nperm = if ei == 0 { perms } else { perms / 3 + 1 };
                for k in 0..nperm {
                    let mut vs = verts.clone();
                    match k {
                        0 => {}
                        1 => vs.reverse(),
                        _ => vs.shuffle(&mut rng),
                    }
                    if k > 0 {
                        for v in vs.iter_mut() {
                            *v = rot(*v, rng.gen_range(0..3));
                        }
                    }
                    n_variants += 1;
                    let setup = ClipSetup { generators: &gens, anchor, width, periodic: inp.per, dimensionality: inp.dimensionality(),
                                            idx: cell, planes: &planes, vertices: &vs };
                    let r = guarded(|| verif::clip_cell(&setup, cj, cs));
                    let describe = |what: &str, detail: Value| json!({"prop": "C18", "what": what, "detail": detail, "case": c, "embedding": emb.to_json(), "order": vs});
                    match r {
                        Err(msg) => {
                            // The prescribed cell is a state of the EXACT machine (ties kept).  When the new plane has tied vertices
                            // and snapping is inexact, the code decides those ties on snapped coordinates - consistently with the
                            // snapped geometry, but not necessarily with a cell that was built under the other convention: the removed
                            // set need not be a disc of THIS cell.  Such a state is not reachable by the builder in this embedding
                            // (the full pipeline, where it decides all ties itself, is what C01 / C05 check); only the exact embedding
                            // and tie-free clips are binding here.
                            if ties == 0 || (ei == 0 && exact_snap) {
                                failures.push(describe("clip panicked for some storage order", json!({"message": msg, "variant": k})));
                            } else if k == 0 {
                                ref_panicked = true;
                            } else if !ref_panicked {
                                // ... but whatever the code decides about the tied vertices, it decides it per vertex from positions,
                                // planes and generators (the exact predicate is invariant under rotations of a triple): every
                                // storage order arrives at the same removed set, so either all of them can be clipped or none
                                failures.push(describe("clip panics for some storage orders of the cell and not for others", json!({"message": msg, "variant": k})));
                            }
                        }
                        Ok(cellr) => {
                            let (ts, vol) = cell_summary(&cellr);
                            if !closed(&ts) || ts.len() != cellr.vertices.len() {
                                failures.push(describe("result is not a closed polytope with three planes per vertex", json!({"variant": k})));
                            }
                            if (ties == 0 || (ei == 0 && exact_snap)) && ts != expect {
                                failures.push(describe("vertex triples after the clip differ from the specification", json!({"variant": k, "got": ts, "expected": expect})));
                            }
                            if ref_panicked {
                                failures.push(describe("clip panics for some storage orders of the cell and not for others", json!({"variant": k, "reference": "panicked"})));
                            }
                            match &reference {
                                None => reference = Some((ts, vol)),
                                Some((t0, v0)) => {
                                    let tolv = 1e-9 * emb.scale(&inp).powi(inp.dim as i32).max(1e-300) + 1e-12 * v0.abs();
                                    // (binding also when ties are decided on snapped coordinates: the decisions do not depend on the storage order)
                                    if *t0 != ts || (vol - v0).abs() > tolv {
                                        failures.push(describe("different storage orders give different polytopes", json!({"variant": k, "vol": vol, "vol0": v0})));
                                    }
                                }
                            }
                        }
                    }
                }
            }
            if samples.len() < 2 && nrem >= 3 {
                samples.push(c.clone());
            }
        }
    }
    // ---------------- Part B
    let mut inputs = float_inputs(seed ^ 0xC18B, fcount, 40, &[3, 3, 2]);
    // cells that undergo more than 256 successful clips (all of them remaining faces): 2D polygon and 3D prism
    inputs.push(crate::tess::refine_input(inputs.len(), 2, 300, seed));
    inputs.push(crate::tess::refine_input(inputs.len(), 3, 280, seed ^ 1));
    // old faces revisited after every gap length in a window around 2^8 successful clips
    for m in 236..=262 {
        inputs.push(crate::tess::sector_input(inputs.len(), if m % 5 == 0 { 3 } else { 2 }, m, seed));
    }
    let mut b_cells = 0usize;
    let mut b_variants = 0usize;
    let mut b_max_planes = 0usize;
    let mut b_max_removed = 0usize;
    for inp in inputs.iter() {
        let dim = inp.dimensionality();
        let integ = match guarded(|| VoronoiIntegrator::build(&inp.gens, None, inp.anchor, inp.width, dim, inp.per)) {
            Ok(x) => x,
            Err(msg) => {
                // a general-position input: the boundary reconstruction must never get stuck
                failures.push(json!({"prop": "C18", "what": "the library panicked while building a general-position input", 
                    "detail": {"message": msg}, "input": inp.to_json()}));
                continue;
            }
        };
        let n = inp.gens.len();
        // the cells with the most vertices + a few random ones
        let mut idxs: Vec<usize> = (0..n).collect();
        idxs.sort_by_key(|&i| std::cmp::Reverse(integ.get_cell_at(i).map(|c| c.vertices.len()).unwrap_or(0)));
        idxs.truncate(3);
        for &ci in &idxs {
            let cell0 = match integ.get_cell_at(ci) { Some(c) => c.clone(), None => continue };
            // an extra generator close to the cell's generator in a random direction: cuts off a cap with many vertices
            let g = cell0.loc;
            let far = cell0.vertices.iter().map(|v| v.loc.distance(g)).fold(0.0, f64::max);
            for trial in 0..3 {
                let mut d = DVec3::new(rng.gen_range(-1.0..1.0), rng.gen_range(-1.0..1.0), if inp.dim == 3 { rng.gen_range(-1.0..1.0) } else { 0.0 });
                if d.length() < 1e-3 {
                    d = DVec3::X;
                }
                let e = g + d.normalize() * far * [0.35, 0.9, 1.4][trial];
                let mut gens2 = inp.gens.clone();
                gens2.push(e);
                let mut reference: Option<(BTreeSet<[usize; 3]>, f64)> = None;
                b_cells += 1;
                for k in 0..perms.max(6) {
                    let mut cell = cell0.clone();
                    match k {
                        0 => {}
                        1 => cell.vertices.reverse(),
                        _ => cell.vertices.shuffle(&mut rng),
                    }
                    if k > 0 {
                        for v in cell.vertices.iter_mut() {
                            v.dual = rot(v.dual, rng.gen_range(0..3));
                        }
                    }
                    let before = cell.vertices.len();
                    b_variants += 1;
                    let r = guarded(|| {
                        verif::clip_existing(&mut cell, &gens2, inp.anchor, inp.width, inp.per, dim, n, None);
                        cell
                    });
                    let describe = |what: &str, detail: Value| json!({"prop": "C18", "what": what, "detail": detail,
                        "input": inp.to_json(), "cell": ci, "extra_generator": e.to_array()});
                    match r {
                        Err(msg) => failures.push(describe("clip of a library-built cell panicked for some storage order", json!({"message": msg, "variant": k}))),
                        Ok(cellr) => {
                            b_max_planes = b_max_planes.max(cellr.clipping_planes.len());
                            let (ts, vol) = cell_summary(&cellr);
                            if !closed(&ts) || ts.len() != cellr.vertices.len() {
                                failures.push(describe("result is not a closed polytope with three planes per vertex", json!({"variant": k, "nverts": cellr.vertices.len()})));
                            }
                            match &reference {
                                None => {
                                    b_max_removed = b_max_removed.max(before.saturating_sub(ts.iter().filter(|t| !t.contains(&(cellr.clipping_planes.len() - 1))).count()));
                                    reference = Some((ts, vol))
                                }
                                Some((t0, v0)) => {
                                    if *t0 != ts || (vol - v0).abs() > 1e-9 * v0.abs().max(1e-300) {
                                        failures.push(describe("different storage orders of a library-built cell give different polytopes",
                                            json!({"variant": k, "vol": vol, "vol0": v0, "nverts": ts.len(), "nverts0": t0.len()})));
                                    }
                                }
                            }
                        }
                    }
                }
            }
        }
    }
    let result = json!({"stats": {"clip_cases": n_cases, "variants": n_variants, "cases_with_2plus_removed": n_nontrivial, "max_removed": max_removed,
                                  "library_cells": b_cells, "library_variants": b_variants, "library_max_planes": b_max_planes,
                                  "library_max_removed": b_max_removed},
                        "failures": failures, "samples": samples});
    std::fs::write(&out_path, serde_json::to_string(&result).unwrap()).unwrap();
    0
}
