//! C19: replay of the VHelpers vectors into the exported geometry helpers, under similarity
//! embeddings of the points and arbitrary positive rescaling of the plane normals.

use crate::common::*;
use glam::DVec3;
use meshless_voronoi::geometry::{intersect_planes, signed_area_tri, signed_volume_tet, Plane, Sphere};
use serde_json::{json, Value};
use std::io::BufRead;

fn v3(v: &Value) -> DVec3 {
    DVec3::new(v[0].as_f64().unwrap(), v[1].as_f64().unwrap(), v[2].as_f64().unwrap())
}
fn hom(v: &Value) -> DVec3 {
    let w = v[3].as_f64().unwrap();
    DVec3::new(v[0].as_f64().unwrap() / w, v[1].as_f64().unwrap() / w, v[2].as_f64().unwrap() / w)
}
fn frac(v: &Value) -> f64 {
    v[0].as_f64().unwrap() / v[1].as_f64().unwrap()
}

pub fn main_helpers(args: &[String]) -> i32 {
    let mut cases_path = String::new();
    let mut out_path = String::new();
    let mut i = 0;
    while i < args.len() {
        match args[i].as_str() {
            "--cases" => { cases_path = args[i + 1].clone(); i += 1 }
            "--out" => { out_path = args[i + 1].clone(); i += 1 }
            _ => {}
        }
        i += 1;
    }
    install_quiet_panic_hook();
    // similarity embeddings (scale, offset, rescaling of the plane normals); the last three are far from unit scale: the
    // helpers are scale free, an absolute threshold (`< f64::EPSILON` on a squared length ...) only shows there
    let embs: [(f64, DVec3, f64); 6] = [(1.0, DVec3::ZERO, 1.0), (0.37, DVec3::new(1.5, -2.25, 0.75), 2.5), (12.5, DVec3::new(-100.0, 40.0, 7.0), 0.3),
        (2f64.powi(-30), DVec3::ZERO, 1.0), (1e-9, DVec3::new(3e-9, -1e-9, 2e-9), 0.7), (2f64.powi(30), DVec3::ZERO, 3.0)];
    let mut failures: Vec<Value> = vec![];
    let mut n = 0usize;
    let mut evals = 0usize;
    let mut per_op: std::collections::BTreeMap<String, usize> = Default::default();
    let mut samples: Vec<Value> = vec![];
    let f = std::fs::File::open(&cases_path).expect("cases");
    for line in std::io::BufReader::new(f).lines() {
        let line = line.unwrap();
        if line.trim().is_empty() {
            continue;
        }
        let rec: Value = serde_json::from_str(&line).unwrap();
        let c = &rec["case"];
        let e = &rec["expected"];
        let op = c["op"].as_str().unwrap().to_string();
        n += 1;
        *per_op.entry(op.clone()).or_insert(0) += 1;
        if samples.len() < 9 && per_op[&op] == 1 {
            samples.push(rec.clone());
        }
        for (ei, (h, o, lam)) in embs.iter().enumerate() {
            let (h, o, lam) = (*h, *o, *lam);
            let pt = |v: &Value| v3(v) * h + o;
            let ept = |v: &Value| hom(v) * h + o;
            let scale = h * 4.0 + o.abs().max_element();
            // length-type errors are relative to the coordinate scale (unit-scale embeddings keep the historical 1 + scale)
            let tol = if h >= 0.1 && h <= 100.0 { 1e-11 * (1.0 + scale) } else { 1e-11 * scale };
            let far_from_unit = !(h >= 0.1 && h <= 100.0);
            evals += 1;
            let mut bad = |what: &str, detail: Value, failures: &mut Vec<Value>| {
                failures.push(json!({"prop": "C19", "what": what, "detail": detail, "case": c, "expected": e, "embedding": {"h": h, "o": o.to_array(), "normal_scale": lam, "index": ei}}));
            };
            let r = guarded(|| -> Vec<(String, f64)> {
                let mut errs: Vec<(String, f64)> = vec![];
                match op.as_str() {
                    "project_onto" => {
                        let pl = Plane::new(v3(&c["n"]) * lam, pt(&c["p"]));
                        let x = pt(&c["x"]);
                        let r = pl.project_onto(x);
                        errs.push(("projection differs from the closed form".into(), (r - ept(&e["pt"])).length()));
                        errs.push(("projection is not on the plane".into(), (r - pl.p).dot(pl.n.normalize()).abs()));
                        errs.push(("projection is not idempotent".into(), (pl.project_onto(r) - r).length()));
                        errs.push(("projection does not move along the normal".into(), (r - x).cross(pl.n.normalize()).length()));
                    }
                    "project_onto_intersection" => {
                        let p1 = Plane::new(v3(&c["n1"]) * lam, pt(&c["p1"]));
                        let p2 = Plane::new(v3(&c["n2"]) / lam, pt(&c["p2"]));
                        let x = pt(&c["x"]);
                        let r = p1.project_onto_intersection(&p2, x);
                        errs.push(("projection onto the intersection differs from the closed form".into(), (r - ept(&e["pt"])).length()));
                        errs.push(("projection is not on the first plane".into(), (r - p1.p).dot(p1.n.normalize()).abs()));
                        errs.push(("projection is not on the second plane".into(), (r - p2.p).dot(p2.n.normalize()).abs()));
                        errs.push(("projection onto the intersection is not idempotent".into(), (p1.project_onto_intersection(&p2, r) - r).length()));
                    }
                    "intersect_planes" => {
                        let p0 = Plane::new(v3(&c["n0"]) * lam, pt(&c["p0"]));
                        let p1 = Plane::new(v3(&c["n1"]), pt(&c["p1"]));
                        let p2 = Plane::new(v3(&c["n2"]) / lam, pt(&c["p2"]));
                        let r = intersect_planes(&p0, &p1, &p2);
                        // a plane is its PUBLIC fields n and p: one that was built elsewhere and then moved (fields assigned)
                        // must give the same answers as one built in place
                        let mut q0 = Plane::new(v3(&c["n1"]), pt(&c["p2"]));
                        q0.n = p0.n;
                        q0.p = p0.p;
                        let mut q2 = Plane::new(v3(&c["n0"]) * 3.0, pt(&c["p1"]) + DVec3::splat(h));
                        q2.p = p2.p;
                        q2.n = p2.n;
                        let rm = intersect_planes(&q0, &p1, &q2);
                        errs.push(("three-plane intersection of planes whose public fields were assigned after construction differs".into(), (rm - r).length()));
                        let pm = q0.project_onto_intersection(&q2, pt(&c["p1"]));
                        let pf = p0.project_onto_intersection(&p2, pt(&c["p1"]));
                        errs.push(("projection onto the intersection of planes whose public fields were assigned after construction differs".into(), (pm - pf).length()));
                        errs.push(("projection onto a plane whose public fields were assigned after construction differs".into(),
                                   (q0.project_onto(pt(&c["p2"])) - p0.project_onto(pt(&c["p2"]))).length()));
                        errs.push(("three-plane intersection differs from the closed form".into(), (r - ept(&e["pt"])).length()));
                        for (k, p) in [&p0, &p1, &p2].iter().enumerate() {
                            errs.push((format!("three-plane intersection is not on plane {}", k), (r - p.p).dot(p.n.normalize()).abs()));
                        }
                    }
                    "signed_volume_tet" => {
                        let (a, b, cc, d) = (pt(&c["v0"]), pt(&c["v1"]), pt(&c["v2"]), pt(&c["v3"]));
                        let want = e["six"].as_f64().unwrap() / 6.0 * h * h * h;
                        // normalised so that the common tolerance (a length) applies: error / (extent^2)
                        let s3 = if far_from_unit { (4.0 * h) * (4.0 * h) } else { (scale * scale * scale / (1.0 + scale)).max(1.0) };
                        errs.push(("signed volume differs from the closed form".into(), (signed_volume_tet(a, b, cc, d) - want).abs() / s3));
                        errs.push(("signed volume is not antisymmetric under a swap".into(), (signed_volume_tet(a, b, cc, d) + signed_volume_tet(b, a, cc, d)).abs() / s3));
                    }
                    "signed_area_tri" => {
                        let (a, b, cc, t) = (pt(&c["v0"]), pt(&c["v1"]), pt(&c["v2"]), pt(&c["t"]));
                        let want = 0.5 * e["foursq"].as_f64().unwrap().sqrt() * h * h * e["sign"].as_f64().unwrap();
                        let s2 = if far_from_unit { 4.0 * h } else { (scale * scale / (1.0 + scale)).max(1.0) };
                        errs.push(("signed area differs from the closed form".into(), (signed_area_tri(a, b, cc, t) - want).abs() / s2));
                        errs.push(("signed area is not antisymmetric under a swap".into(), (signed_area_tri(a, b, cc, t) + signed_area_tri(a, cc, b, t)).abs() / s2));
                    }
                    "from_two_points" | "from_three_points" | "from_four_points" => {
                        let s = match op.as_str() {
                            "from_two_points" => Sphere::from_two_points(pt(&c["a"]), pt(&c["b"])),
                            "from_three_points" => Sphere::from_three_points(pt(&c["a"]), pt(&c["b"]), pt(&c["c"])),
                            _ => Sphere::from_four_points(pt(&c["a"]), pt(&c["b"]), pt(&c["c"]), pt(&c["d"])),
                        };
                        let want_r = frac(&e["r2"]).sqrt() * h;
                        // circumsphere determinants lose digits with the offset: allow for the conditioning
                        let cond = 1.0 + (o.length() / h).powi(2);
                        errs.push(("sphere centre differs from the closed form".into(), (s.center - ept(&e["pt"])).length() / cond));
                        errs.push(("sphere radius differs from the closed form".into(), (s.radius - want_r).abs() / cond));
                        for key in ["a", "b", "c", "d"] {
                            if !c[key].is_null() {
                                errs.push((format!("sphere does not pass through point {}", key), (s.center.distance(pt(&c[key])) - s.radius).abs() / cond));
                            }
                        }
                        // the same sphere whatever the order of the points
                        if op == "from_four_points" {
                            let s2 = Sphere::from_four_points(pt(&c["d"]), pt(&c["c"]), pt(&c["b"]), pt(&c["a"]));
                            errs.push(("circumsphere depends on the order of the points".into(), (s2.center - s.center).length() / cond));
                        }
                        if op == "from_three_points" {
                            let s2 = Sphere::from_three_points(pt(&c["c"]), pt(&c["a"]), pt(&c["b"]));
                            errs.push(("circumcircle depends on the order of the points".into(), (s2.center - s.center).length() / cond));
                        }
                    }
                    "extend" => {
                        let s0 = Sphere::new(pt(&c["c"]), c["r"].as_f64().unwrap() * h);
                        let x = pt(&c["x"]);
                        let s = s0.clone().extend(x);
                        errs.push(("extended sphere centre differs from the closed form".into(), (s.center - ept(&e["pt"])).length()));
                        errs.push(("extended sphere radius differs from the closed form".into(), (s.radius - frac(&e["r2"]).sqrt() * h).abs()));
                        errs.push(("extended sphere does not contain the point".into(), (s.center.distance(x) - s.radius).max(0.0)));
                        errs.push(("extended sphere does not contain the old sphere".into(), (s.center.distance(s0.center) + s0.radius - s.radius).max(0.0)));
                        if !s.contains(x) {
                            errs.push(("contains() is false for the point the sphere was extended by".into(), 1.0));
                        }
                    }
                    _ => {}
                }
                errs
            });
            match r {
                Err(m) => bad("helper panicked on a non-degenerate argument", json!({"message": m}), &mut failures),
                Ok(errs) => {
                    for (what, err) in errs {
                        if !(err <= tol) {
                            bad(&what, json!({"error": err, "tol": tol}), &mut failures);
                        }
                    }
                }
            }
        }
    }
    failures.truncate(300);
    let result = json!({"stats": {"cases": n, "evaluations": evals, "per_op": per_op}, "failures": failures, "samples": samples});
    std::fs::write(&out_path, serde_json::to_string(&result).unwrap()).unwrap();
    0
}
