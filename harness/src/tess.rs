//! Pipeline F / M-tess, impl -> spec: run the library on seeded floating-point (and exactly
//! snapping lattice) inputs under many masks and record, per (input, mask), everything the
//! assembly machine VTess talks about: per-cell plane lists, face lists, connectivity, offsets,
//! neighbour iterators, symmetric / non-symmetric integral lists, bit tokens and quantised
//! measures.  The NDJSON trace is validated by spec/trace/VTessTrace.tla.

use crate::common::*;
use crate::probe::ProbeFace;
use glam::DVec3;
use meshless_voronoi::integrals::{AreaCentroidIntegral, VolumeCentroidIntegral};
use meshless_voronoi::{Dimensionality, Voronoi, VoronoiIntegrator};
use rand::rngs::StdRng;
use rand::{Rng, SeedableRng};
use serde_json::{json, Value};
use std::io::Write;

pub const Q: f64 = 67108864.0; // 2^26

/// Short opaque token of a bit pattern string (TLC only tests tokens for equality).
fn short(s: String) -> String {
    let mut h: u64 = 0xcbf29ce484222325;
    for b in s.bytes() {
        h ^= b as u64;
        h = h.wrapping_mul(0x100000001b3);
    }
    format!("{:016x}", h)
}

#[derive(Clone, Debug)]
pub struct FInput {
    pub id: usize,
    pub kind: String,
    pub gens: Vec<DVec3>,
    pub anchor: DVec3,
    pub width: DVec3,
    pub dim: usize,
    pub per: bool,
}

impl FInput {
    pub fn dimensionality(&self) -> Dimensionality {
        match self.dim {
            1 => Dimensionality::OneD,
            2 => Dimensionality::TwoD,
            _ => Dimensionality::ThreeD,
        }
    }
    pub fn scale(&self) -> f64 {
        (0..self.dim).map(|k| self.width[k]).fold(0.0, f64::max)
    }
    /// Smallest distance between two generators (active subspace, nearest periodic image) relative to the box scale.
    pub fn min_sep_rel(&self) -> f64 {
        let mut m = f64::INFINITY;
        for i in 0..self.gens.len() {
            for j in 0..i {
                let mut d2 = 0.0;
                for k in 0..self.dim {
                    let mut d = (self.gens[i][k] - self.gens[j][k]).abs();
                    if self.per {
                        d = d.min((d - self.width[k]).abs());
                    }
                    d2 += d * d;
                }
                m = m.min(d2.sqrt());
            }
        }
        m / self.scale()
    }
    /// Smallest distance from a generator to its SECOND nearest neighbour, relative to the box scale (three generators
    /// mutually that close: their bisectors with a distant generator are almost parallel three by three).
    pub fn tri_sep_rel(&self) -> f64 {
        let n = self.gens.len();
        let mut m = f64::INFINITY;
        for i in 0..n {
            let (mut a, mut b) = (f64::INFINITY, f64::INFINITY);
            for j in 0..n {
                if i == j {
                    continue;
                }
                let mut d2 = 0.0;
                for k in 0..self.dim {
                    let mut d = (self.gens[i][k] - self.gens[j][k]).abs();
                    if self.per {
                        d = d.min((d - self.width[k]).abs());
                    }
                    d2 += d * d;
                }
                let d = d2.sqrt();
                if d < a {
                    b = a;
                    a = d;
                } else if d < b {
                    b = d;
                }
            }
            m = m.min(b);
        }
        m / self.scale()
    }
    pub fn to_json(&self) -> Value {
        json!({"id": self.id, "kind": self.kind, "dim": self.dim, "per": self.per, "minsep": self.min_sep_rel().min(1e300), "trisep": self.tri_sep_rel().min(1e300),
               "anchor": self.anchor.to_array(), "width": self.width.to_array(),
               "gens": self.gens.iter().map(|g| g.to_array()).collect::<Vec<_>>()})
    }
}

/// Seeded inputs: uniform, clustered, near-lattice, exact lattice (power-of-two, snapping exact),
/// tiny periodic sets (self-neighbours), anisotropic boxes, large offsets.
pub fn float_inputs(seed: u64, count: usize, nmax: usize, dims: &[usize]) -> Vec<FInput> {
    let mut rng = StdRng::seed_from_u64(seed.wrapping_mul(0x9E3779B97F4A7C15) ^ 0xF00D);
    let mut out = vec![];
    let kinds = ["uniform", "cluster", "nearlattice", "lattice", "tiny", "aniso", "offset", "shell", "prism", "ring", "onwall", "micro", "mega", "pairs", "fcc", "bcc"];
    let mut aniso_round = 0usize;
    let mut k = 0;
    while out.len() < count {
        let kind = kinds[k % kinds.len()];
        k += 1;
        let dim = dims[rng.gen_range(0..dims.len())];
        let mut per = rng.gen_bool(0.5);
        let mut anchor = DVec3::new(rng.gen_range(-2.0..2.0), rng.gen_range(-2.0..2.0), rng.gen_range(-2.0..2.0));
        let mut width = DVec3::splat(rng.gen_range(0.5..3.0));
        match kind {
            "aniso" => {
                // cycle through all orderings of (large, medium, small) over the axes, periodic and not
                let big = rng.gen_range(2.0..10.0);
                let vals = [big, big * rng.gen_range(0.3..0.5), big * rng.gen_range(0.05..0.15)];
                let perms = [[0, 1, 2], [0, 2, 1], [1, 0, 2], [1, 2, 0], [2, 0, 1], [2, 1, 0]];
                let p = perms[aniso_round % 6];
                width = DVec3::new(vals[p[0]], vals[p[1]], vals[p[2]]);
                per = (aniso_round / 6) % 2 == 0;
                aniso_round += 1;
            }
            "offset" => {
                anchor = DVec3::new(rng.gen_range(-1e4..1e4), rng.gen_range(-1e4..1e4), rng.gen_range(-1e4..1e4));
                width = DVec3::splat(rng.gen_range(1.0..100.0));
            }
            // absolute scale far from 1 (the library is scale free: absolute thresholds must not matter)
            "micro" => {
                let sc = 2f64.powi(-rng.gen_range(30..=44));
                anchor *= sc;
                width *= sc;
            }
            "mega" => {
                let sc = 2f64.powi(rng.gen_range(20..=26));
                anchor *= sc;
                width *= sc;
            }
            _ => {}
        }
        let dim = if kind == "fcc" || kind == "bcc" || kind == "prism" { 3 } else if kind == "aniso" || kind == "shell" || kind == "ring" { if kind == "ring" && rng.gen_bool(0.3) { 2 } else { 3 } } else { dim };
        let n = match kind {
            "tiny" => rng.gen_range(1..=4),
            _ => rng.gen_range(2..=nmax),
        };
        let mut gens: Vec<DVec3> = vec![];
        match kind {
            "cluster" => {
                let c = DVec3::new(rng.gen_range(0.2..0.8), rng.gen_range(0.2..0.8), rng.gen_range(0.2..0.8));
                let r = 10f64.powf(rng.gen_range(-3.3..-1.0));
                for i in 0..n {
                    let u = DVec3::new(rng.gen_range(0.0..1.0), rng.gen_range(0.0..1.0), rng.gen_range(0.0..1.0));
                    let p = if i < (2 * n) / 3 { c + r * (u - 0.5) } else { u };
                    gens.push(anchor + p * width);
                }
            }
            "pairs" => {
                // uniform points, some of them with a partner at a relative distance of 1e-10 .. 1e-5 of the box: two
                // almost parallel bisectors in every third cell that neighbours both
                for _ in 0..n {
                    let u = DVec3::new(rng.gen_range(0.05..0.95), rng.gen_range(0.05..0.95), rng.gen_range(0.05..0.95));
                    gens.push(anchor + u * width);
                }
                let m = rng.gen_range(1..=3.min(n));
                for k in 0..m {
                    let d = DVec3::new(rng.gen_range(-1.0..1.0), rng.gen_range(-1.0..1.0), rng.gen_range(-1.0..1.0)).normalize_or_zero();
                    let sep = 10f64.powf(rng.gen_range(-6.5..-5.0));
                    let q = gens[k] + d * sep * width;
                    gens.push(q);
                }
            }
            "fcc" | "bcc" => {
                // face-centred / body-centred cubic lattices on a dyadic grid in the power-of-two box [0,4]^3 (snapping is
                // exact, ties are decided on true coordinates): cells are rhombic dodecahedra / truncated octahedra, with
                // vertices where four or more faces meet - represented as coincident vertices and zero-length edges
                anchor = DVec3::ZERO;
                width = DVec3::splat(4.0);
                per = false;
                let m: i32 = if kind == "fcc" { 4 } else if nmax > 30 { 4 } else { 2 }; // 2m must be a power of two (dyadic coordinates)
                for a in 0..(2 * m) {
                    for b in 0..(2 * m) {
                        for c in 0..(2 * m) {
                            let keep = if kind == "fcc" {
                                a % 2 == 0 && b % 2 == 0 && c % 2 == 0 && ((a + b + c) / 2) % 2 == 0 || false
                            } else {
                                (a % 2 == b % 2) && (b % 2 == c % 2)
                            };
                            if !keep || (dim < 3 && c != 0) || (dim < 2 && b != 0) {
                                continue;
                            }
                            let q = 4.0 / (2 * m) as f64;
                            gens.push(DVec3::new((a as f64 + 0.5) * q, (b as f64 + 0.5) * q, (c as f64 + 0.5) * q));
                        }
                    }
                }
            }
            "onwall" => {
                // generators lying exactly on walls of a reflective box away from the origin
                per = false;
                anchor = DVec3::new(rng.gen_range(1.0..3.0), rng.gen_range(1.0..3.0), rng.gen_range(1.0..3.0));
                for _ in 0..n {
                    let u = DVec3::new(rng.gen_range(0.05..0.95), rng.gen_range(0.05..0.95), rng.gen_range(0.05..0.95));
                    let mut p = anchor + u * width;
                    // on a wall (one coordinate pinned), on an edge of the box (two) or exactly at a corner (all)
                    let r: f64 = rng.gen_range(0.0..1.0);
                    let pinned = if r < 0.45 { 0 } else if r < 0.75 { 1 } else if r < 0.9 { 2.min(dim) } else { dim };
                    let first = rng.gen_range(0..dim);
                    for j in 0..pinned {
                        let k = (first + j) % dim;
                        p[k] = if rng.gen_bool(0.5) { anchor[k] } else { anchor[k] + width[k] };
                    }
                    if gens.iter().any(|q: &DVec3| (0..dim).all(|k| q[k] == p[k])) {
                        continue;
                    }
                    gens.push(p);
                }
            }
            "shell" => {
                // one generator surrounded by a (jittered) spherical shell: a cell with very many faces and vertices
                let m = rng.gen_range(40..=90);
                let c = DVec3::splat(0.5);
                gens.push(anchor + c * width);
                let wmin = width.min_element();
                for i in 0..m {
                    let z = 1.0 - 2.0 * (i as f64 + 0.5) / m as f64;
                    let r = (1.0 - z * z).sqrt();
                    let phi = i as f64 * 2.399963229728653;
                    let jit = 1.0 + 0.02 * rng.gen_range(-1.0..1.0);
                    let d = DVec3::new(r * phi.cos(), r * phi.sin(), z) * 0.3 * wmin * jit;
                    gens.push(anchor + c * width + d);
                }
            }
            "prism" => {
                // a generator inside a ring of 36..48 neighbours; then, FARTHER away, one above and one below (each cuts off a whole
                // end of the prism: more than 32 vertices removed by one clip), then a few more a little farther still, in gaps of
                // the ring and obliquely (clips that come after the big ones and touch planes the big ones did not)
                let m = rng.gen_range(36..=48);
                let c = DVec3::splat(0.5);
                let wmin = width.min_element();
                gens.push(anchor + c * width);
                // a gap of five slots in the ring (the cell reaches through it until a later neighbour closes it)
                let gap0 = rng.gen_range(0..m);
                for i in 0..m {
                    if (i + m - gap0) % m < 5 {
                        continue;
                    }
                    let phi = (i as f64 + rng.gen_range(-0.2..0.2)) * std::f64::consts::TAU / m as f64;
                    let r = 0.25 * (1.0 + 0.01 * rng.gen_range(-1.0..1.0));
                    gens.push(anchor + c * width + DVec3::new(phi.cos(), phi.sin(), 0.0) * r * wmin);
                }
                gens.push(anchor + c * width + DVec3::Z * 0.26 * wmin);
                if (k / kinds.len()) % 2 == 1 {
                    // (every other prism; without it the bottom of the prism stays on the wall of the box - the first one has none)
                    gens.push(anchor + c * width - DVec3::Z * 0.27 * wmin);
                }
                {
                    // the neighbour that closes the gap, after the big clips
                    // (just beyond the neighbour above; its bisector still reaches the edge of the prism in the middle of the gap)
                    let phi = (gap0 as f64 + 2.0) * std::f64::consts::TAU / m as f64;
                    gens.push(anchor + c * width + DVec3::new(phi.cos(), phi.sin(), 0.0) * 0.265 * wmin);
                }
                for _ in 0..rng.gen_range(2..=4) {
                    let phi = rng.gen_range(0.0..std::f64::consts::TAU);
                    let z: f64 = rng.gen_range(-0.2..0.2);
                    let r: f64 = rng.gen_range(0.32..0.36);
                    gens.push(anchor + c * width + DVec3::new(phi.cos() * (1.0 - z * z).sqrt(), phi.sin() * (1.0 - z * z).sqrt(), z) * r * wmin);
                }
            }
            "ring" => {
                // a generator inside a ring of many neighbours (+ one above and below in 3D): a face with many edges
                let m = rng.gen_range(24..=44); // faces with up to 44 vertices (thresholds on the size of a face)
                let c = DVec3::splat(0.5);
                let wmin = width.min_element();
                gens.push(anchor + c * width);
                for i in 0..m {
                    let phi = (i as f64 + rng.gen_range(-0.2..0.2)) * std::f64::consts::TAU / m as f64;
                    gens.push(anchor + c * width + DVec3::new(phi.cos(), phi.sin(), 0.0) * 0.35 * wmin);
                }
                if dim == 3 {
                    gens.push(anchor + c * width + DVec3::Z * 0.3 * wmin);
                    gens.push(anchor + c * width - DVec3::Z * 0.3 * wmin);
                }
            }
            "nearlattice" | "lattice" => {
                // m^dim lattice cell centres (+ perturbation for nearlattice); lattice: power-of-two box at 0
                let mut m = if dim == 3 { rng.gen_range(2..=3) } else if dim == 2 { rng.gen_range(2..=5) } else { rng.gen_range(2..=8) };
                if kind == "lattice" {
                    m = 3;
                }
                let eps = if kind == "lattice" { 0.0 } else { 10f64.powf(rng.gen_range(-9.0..-6.0)) };
                if kind == "lattice" {
                    anchor = DVec3::ZERO;
                    width = DVec3::splat(4.0);
                    per = false; // exact ties + inexact snapping in periodic boxes is known finding F2's territory
                }
                let mm = [m, if dim >= 2 { m } else { 1 }, if dim >= 3 { m } else { 1 }];
                for a in 0..mm[0] {
                    for b in 0..mm[1] {
                        for c in 0..mm[2] {
                            let mut p = DVec3::new((a as f64 + 0.5) / mm[0] as f64, (b as f64 + 0.5) / mm[1] as f64, (c as f64 + 0.5) / mm[2] as f64);
                            if kind == "lattice" {
                                // points on a dyadic grid (exactly representable, snapping exact): i/4
                                p = DVec3::new(a as f64 / 4.0 + 0.25, b as f64 / 4.0 + 0.25, c as f64 / 4.0 + 0.25);
                            }
                            let e = DVec3::new(rng.gen_range(-1.0..1.0), rng.gen_range(-1.0..1.0), rng.gen_range(-1.0..1.0)) * eps;
                            gens.push(anchor + (p + e) * width);
                        }
                    }
                }
            }
            _ => {
                for _ in 0..n {
                    let u = DVec3::new(rng.gen_range(0.0..1.0), rng.gen_range(0.0..1.0), rng.gen_range(0.0..1.0));
                    gens.push(anchor + u * width);
                }
            }
        }
        // clamp into the closed box (rounding)
        for g in gens.iter_mut() {
            *g = g.max(anchor).min(anchor + width);
        }
        // a valid input has pairwise distinct generators after dropping the unused coordinates and modulo the period:
        // drop every generator that coincides with an earlier one in that sense (e.g. two 1D generators on the same wall)
        let key = |g: &DVec3| -> [u64; 3] {
            let mut k = [0u64; 3];
            for a in 0..dim {
                let mut x = g[a];
                if per && x == anchor[a] + width[a] {
                    x = anchor[a];
                }
                k[a] = (x + 0.0).to_bits();
            }
            k
        };
        let mut seen = std::collections::HashSet::new();
        gens.retain(|g| seen.insert(key(g)));
        out.push(FInput { id: out.len(), kind: kind.to_string(), gens, anchor, width, dim, per });
    }
    out
}

/// A generator whose cell undergoes several hundred SUCCESSFUL clips and keeps all of them as faces: `count` neighbours
/// (almost) on one circle around it - every bisector is tangent to the inscribed circle, so whatever the order in which
/// they arrive each one cuts off a corner of the polygon built so far and stays a face (+ one above / below in 3D).
pub fn refine_input(id: usize, dim: usize, count: usize, seed: u64) -> FInput {
    let mut rng = StdRng::seed_from_u64(seed ^ 0x5E1F1);
    let c = DVec3::new(0.5, 0.5, if dim == 3 { 0.5 } else { 0.0 });
    let mut gens = vec![c];
    for k in 0..count {
        let phi = (k as f64 + rng.gen_range(-0.2..0.2)) * std::f64::consts::TAU / count as f64;
        let r = 0.3 * (1.0 + 1e-7 * rng.gen_range(-1.0..1.0));
        gens.push(c + r * DVec3::new(phi.cos(), phi.sin(), 0.0));
    }
    if dim == 3 {
        gens.push(c + DVec3::Z * 0.29);
        gens.push(c - DVec3::Z * 0.29);
    }
    FInput { id, kind: "refine".into(), gens, anchor: DVec3::ZERO, width: DVec3::ONE, dim, per: false }
}

/// Long-gap revisits: an octagon of first neighbours (arriving in angular order), then `m` neighbours whose bisectors
/// all refine ONE corner of it (they never touch the other sides), then one neighbour per remaining corner, again in
/// angular order: each of the old sides is revisited after about m + 7 successful clips during which it was not
/// touched.  Run for a window of m, every gap length around a power of two occurs (state kept across clips - counters,
/// generation tags, cached cycle slots - must not go stale).
pub fn sector_input(id: usize, dim: usize, m: usize, seed: u64) -> FInput {
    let mut rng = StdRng::seed_from_u64(seed ^ 0x5EC7 ^ (m as u64));
    let c = DVec3::new(0.5, 0.5, if dim == 3 { 0.5 } else { 0.0 });
    let mut gens = vec![c];
    let d0 = 0.3;
    let at = |phi: f64, d: f64| c + d * DVec3::new(phi.cos(), phi.sin(), 0.0);
    let step = std::f64::consts::TAU / 8.0;
    for k in 0..8 {
        gens.push(at(k as f64 * step, d0 * (1.0 - 1e-3) * (1.0 + 1e-6 * k as f64)));
    }
    for i in 0..m {
        // evenly spaced (+- 20 %) over the sector: neighbours about 1e-3 apart (far from known finding F11's territory)
        let phi = (0.04 + 0.92 * (i as f64 + 0.5 + rng.gen_range(-0.2..0.2)) / m as f64) * step;
        gens.push(at(phi, d0 * (1.0 + 1e-7 * rng.gen_range(-1.0..1.0))));
    }
    for k in 1..8 {
        gens.push(at((k as f64 + 0.5) * step, d0 * (1.0 + 2e-3) * (1.0 + 1e-6 * k as f64)));
    }
    if dim == 3 {
        gens.push(c + DVec3::Z * 0.29);
        gens.push(c - DVec3::Z * 0.29);
    }
    FInput { id, kind: "sector".into(), gens, anchor: DVec3::ZERO, width: DVec3::ONE, dim, per: false }
}

fn shift_code(shift: Option<DVec3>, width: DVec3) -> i64 {
    match shift {
        None => -1,
        Some(s) => {
            let q = |k: usize| -> i64 { (s[k] / width[k]).round() as i64 };
            9 * (q(0) + 1) + 3 * (q(1) + 1) + (q(2) + 1)
        }
    }
}

/// Quantise to an integer TLC can hold (clamped to +-2^30: a clamped value can only make a relation fail).
fn qi(x: f64) -> i64 {
    let v = (x * Q).round();
    if v.is_nan() {
        return -(1 << 30);
    }
    v.max(-((1i64 << 30) as f64)).min((1i64 << 30) as f64) as i64
}
fn q3(v: DVec3, scale: f64) -> [i64; 3] {
    [qi(v.x / scale), qi(v.y / scale), qi(v.z / scale)]
}

fn masks_for(n: usize, rng: &mut StdRng, tier: &str) -> Vec<Option<Vec<bool>>> {
    let mut v: Vec<Option<Vec<bool>>> = vec![None, Some(vec![true; n])];
    if n <= 4 {
        for m in 0..(1u32 << n) {
            let mk: Vec<bool> = (0..n).map(|i| (m >> i) & 1 == 1).collect();
            if mk.iter().all(|b| *b) {
                continue;
            }
            v.push(Some(mk));
        }
    } else {
        v.push(Some(vec![false; n]));
        let singles = if tier == "thorough" { 3 } else { 1 };
        for _ in 0..singles {
            let s = rng.gen_range(0..n);
            v.push(Some((0..n).map(|i| i == s).collect()));
        }
        let randoms = if tier == "thorough" { 6 } else { 3 };
        for r in 0..randoms {
            let p = [0.5, 0.2, 0.8, 0.35, 0.65, 0.1][r % 6];
            v.push(Some((0..n).map(|_| rng.gen_bool(p)).collect()));
        }
        // sparse masks: exactly two / three / four selected cells (special-cased paths for "few active cells")
        for k in 2..=4usize {
            if n > 2 * k {
                let mut m = vec![false; n];
                let mut placed = 0;
                while placed < k {
                    let i = rng.gen_range(0..n);
                    if !m[i] {
                        m[i] = true;
                        placed += 1;
                    }
                }
                v.push(Some(m));
            }
        }
        // lower half off / upper half off
        v.push(Some((0..n).map(|i| i >= n / 2).collect()));
        v.push(Some((0..n).map(|i| i % 3 != 0).collect()));
    }
    v
}

fn voronoi_record(v: &Voronoi, width: DVec3, scale_area: f64) -> Value {
    let faces: Vec<Value> = v
        .faces()
        .iter()
        .map(|f| {
            json!({"left": f.left(), "right": f.right().map(|r| r as i64).unwrap_or(-1), "s": shift_code(f.shift(), width),
                   "aq": qi(f.area() / scale_area),
                   "tok": short(format!("{}{}", hex(f.area()), hex3(f.centroid())))})
        })
        .collect();
    let offs: Vec<usize> = v.cells().iter().map(|c| c.face_connections_offset()).collect();
    let cnts: Vec<usize> = v.cells().iter().map(|c| c.face_count()).collect();
    let nbrs: Vec<Vec<usize>> = v.cells().iter().map(|c| c.neighbour_ids(v).collect()).collect();
    let fidx: Vec<Vec<usize>> = v.cells().iter().map(|c| c.face_indices(v).to_vec()).collect();
    let ctok: Vec<String> = v
        .cells()
        .iter()
        .map(|c| short(format!("{}{}{}{}", hex(c.volume()), hex3(c.centroid()), hex3(c.loc()), hex(c.safety_radius()))))
        .collect();
    // the faces of each cell as its own iterator reports them: (other side, shift seen from the cell, area)
    let fset: Vec<Vec<Value>> = v
        .cells()
        .iter()
        .enumerate()
        .map(|(i, c)| {
            c.faces(v)
                .map(|f| {
                    let code = shift_code(f.shift(), width);
                    let (o, sc): (i64, i64) = match f.right() {
                        None => {
                            let nrm = f.normal();
                            let k = (0..3).max_by(|&a, &b| nrm[a].abs().partial_cmp(&nrm[b].abs()).unwrap()).unwrap();
                            (-(2 * k as i64 + if nrm[k] > 0.0 { 2 } else { 1 }), -1)
                        }
                        Some(r) => {
                            if f.left() == i && !(r == i && f.shift().is_none()) { (r as i64 + 1, code) } else { (f.left() as i64 + 1, if code < 0 { -1 } else { 26 - code }) }
                        }
                    };
                    json!({"o": o, "s": sc, "aq": qi(f.area() / scale_area)})
                })
                .collect()
        })
        .collect();
    let czero: Vec<bool> = v.cells().iter().map(|c| c.volume() == 0.0 && c.centroid() == DVec3::ZERO).collect();
    json!({"faces": faces, "czero": czero, "fset": fset, "conn": v.cell_face_connections(), "offs": offs, "cnts": cnts, "nbrs": nbrs, "fidx": fidx,
           "ctok": ctok, "tok": dump_token(v)})
}

/// Canonical byte dump of a tessellation (for the bitwise clauses), hashed to a short token.
pub fn dump_token(v: &Voronoi) -> String {
    let mut h: u64 = 0xcbf29ce484222325;
    let mut feed = |x: u64| {
        for b in x.to_le_bytes() {
            h ^= b as u64;
            h = h.wrapping_mul(0x100000001b3);
        }
    };
    for c in v.cells() {
        feed(c.volume().to_bits());
        for k in 0..3 {
            feed(c.centroid()[k].to_bits());
            feed(c.loc()[k].to_bits());
        }
        feed(c.safety_radius().to_bits());
        feed(c.face_connections_offset() as u64);
        feed(c.face_count() as u64);
    }
    for f in v.faces() {
        feed(f.left() as u64);
        feed(f.right().map(|r| r as u64 + 1).unwrap_or(0));
        feed(f.area().to_bits());
        for k in 0..3 {
            feed(f.centroid()[k].to_bits());
            feed(f.normal()[k].to_bits());
            feed(f.shift().map(|s| s[k].to_bits()).unwrap_or(7));
        }
    }
    for c in v.cell_face_connections() {
        feed(*c as u64);
    }
    // the neighbour iterator of every cell (constructed or not): observable behaviour that depends on private per-cell state
    for c in v.cells() {
        for j in c.neighbour_ids(v) {
            feed(j as u64 + 1);
        }
        feed(0);
    }
    // what the tessellation says about itself
    for k in 0..3 {
        feed(v.anchor()[k].to_bits());
        feed(v.width()[k].to_bits());
    }
    feed(v.dimensionality() as u64);
    feed(v.periodic() as u64);
    format!("{:016x}", h)
}

pub struct TessFail {
    pub prop: &'static str,
    pub what: String,
    pub detail: Value,
}

/// Record one (input, mask). Returns the trace line (None if the library panicked) and numeric failures.
pub fn record(inp: &FInput, mask: &Option<Vec<bool>>, full_line: bool) -> (Option<Value>, Vec<TessFail>, Option<String>) {
    let mut fails = vec![];
    let n = inp.gens.len();
    let dim = inp.dimensionality();
    let mref = mask.as_deref();
    let integ = guarded(|| VoronoiIntegrator::build(&inp.gens, mref, inp.anchor, inp.width, dim, inp.per));
    let direct = guarded(|| match mref {
        None => Voronoi::build(&inp.gens, inp.anchor, inp.width, dim, inp.per),
        Some(m) => Voronoi::build_partial(&inp.gens, m, inp.anchor, inp.width, dim, inp.per),
    });
    let (integ, direct) = match (integ, direct) {
        (Ok(a), Ok(b)) => (a, b),
        (a, b) => {
            let msg = a.err().or(b.err()).unwrap_or_default();
            return (None, fails, Some(msg));
        }
    };
    let conv = Voronoi::from(&integ);
    let l = inp.scale();
    let scale_area = l.powi(inp.dim as i32 - 1);
    let mut box_measure = 1.0;
    let mut width = inp.width;
    let mut anchor = inp.anchor;
    for k in 0..3 {
        if k < inp.dim {
            box_measure *= inp.width[k];
        } else {
            width[k] = 1.0;
            anchor[k] = -0.5;
        }
    }
    let active: Vec<bool> = (0..n).map(|i| mref.map_or(true, |m| m[i])).collect();
    // per-cell plane lists from the integrator's convex cells (public fields)
    let mut cps: Vec<Value> = vec![];
    let mut nonsym: Vec<Value> = vec![];
    let mut sym: Vec<Value> = vec![];
    let mut volq: Vec<i64> = vec![];
    let nonsym_all = integ.compute_face_integrals::<AreaCentroidIntegral>();
    let sym_all = integ.compute_face_integrals_sym::<AreaCentroidIntegral>();
    let vols = integ.compute_cell_integrals::<VolumeCentroidIntegral>();
    let mut vi = 0;
    for i in 0..n {
        match integ.get_cell_at(i) {
            None => {
                cps.push(json!([]));
                volq.push(0);
            }
            Some(cell) => {
                let probes = cell.compute_face_integrals::<(), ProbeFace>(());
                let builtin = cell.compute_face_integrals::<(), AreaCentroidIntegral>(());
                let mut planes: Vec<Value> = vec![];
                for (pi, hs) in cell.clipping_planes.iter().enumerate() {
                    let hv = cell.vertices.iter().any(|v| v.dual.contains(&pi));
                    let ok = dim.vector_is_valid(hs.normal());
                    let pr = probes.iter().position(|p| p.integral().plane_idx == pi);
                    let (area, cen) = match pr {
                        Some(k) => (builtin[k].integral().area, builtin[k].integral().centroid),
                        None => (0.0, DVec3::ZERO),
                    };
                    planes.push(json!({
                        "w": if hs.right_idx.is_none() { pi as i64 + 1 } else { 0 },
                        "j": hs.right_idx.map(|r| r as i64 + 1).unwrap_or(0),
                        "s": shift_code(hs.shift, width),
                        "hv": hv, "ok": ok,
                        "aq": qi(area / scale_area),
                        "cq": q3(cen - anchor, l),
                        "nq": q3(hs.normal(), 1.0),
                        "tok": short(format!("{}{}", hex(area), hex3(cen))),
                    }));
                }
                cps.push(Value::Array(planes));
                let v = &vols[vi];
                vi += 1;
                volq.push(qi(v.volume / box_measure).max(-(1 << 27)).min(1 << 27));
                // the stored cell equals the integral (C13)
                let dc = &direct.cells()[i];
                if v.volume.to_bits() != dc.volume().to_bits() || hex3(v.centroid) != hex3(dc.centroid()) {
                    fails.push(TessFail { prop: "C13", what: "compute_cell_integrals::<VolumeCentroidIntegral> differs bitwise from the stored cell".into(),
                        detail: json!({"cell": i, "integral": v.volume, "stored": dc.volume()}) });
                }
            }
        }
    }
    if vi != vols.len() {
        fails.push(TessFail { prop: "C13", what: "compute_cell_integrals length is not the number of constructed cells".into(), detail: json!({"got": vols.len(), "constructed": vi}) });
    }
    for f in nonsym_all.iter() {
        nonsym.push(json!({"left": f.left() + 1, "right": f.right().map(|r| r as i64 + 1).unwrap_or(0), "s": shift_code(f.shift(), width),
                           "tok": short(format!("{}{}", hex(f.integral().area), hex3(f.integral().centroid)))}));
    }
    for f in sym_all.iter() {
        sym.push(json!({"left": f.left() + 1, "right": f.right().map(|r| r as i64 + 1).unwrap_or(0), "s": shift_code(f.shift(), width),
                        "tok": short(format!("{}{}", hex(f.integral().area), hex3(f.integral().centroid)))}));
    }
    // numeric reciprocity at the property's own threshold (1e-9 of the box face scale): C03
    let thr = 1e-9 * scale_area;
    // (+ the conditioning of near-parallel bisectors, see poly.rs: eps / s^2 for generators at relative distance s)
    let tl = 1e-9 * l + 4096.0 * f64::EPSILON * (inp.anchor.abs().max_element() + 2.0 * l)
        + f64::EPSILON / (inp.min_sep_rel() * inp.min_sep_rel()).max(1e-300) * l;
    for i in 0..n {
        let ci = match integ.get_cell_at(i) { Some(c) => c, None => continue };
        for f in ci.compute_face_integrals::<(), ProbeFace>(()) {
            let a = f.integral().area;
            if let Some(j) = f.right() {
                if a <= thr || !active[j] {
                    continue;
                }
                let sc = shift_code(f.shift(), width);
                let cj = integ.get_cell_at(j).unwrap();
                let mut found = false;
                for g in cj.compute_face_integrals::<(), ProbeFace>(()) {
                    let back = shift_code(g.shift(), width);
                    let neg = if sc < 0 { -1 } else { 26 - sc };
                    if g.right() == Some(i) && back == neg {
                        found = true;
                        let tol_a = 20.0 * tl * l.powi(inp.dim as i32 - 2).max(1e-300);
                        let shiftv = f.shift().unwrap_or(DVec3::ZERO);
                        if (g.integral().area - a).abs() > tol_a.max(thr) {
                            fails.push(TessFail { prop: "C03", what: "face area differs between its two sides".into(),
                                detail: json!({"i": i, "j": j, "shift": sc, "area_i": a, "area_j": g.integral().area}) });
                        } else if a > 1e3 * thr && {
                            // unused axes carry the unit slab (coordinates of order 1 whatever the scale of the active axes)
                            let dc = f.integral().centroid() - shiftv - g.integral().centroid();
                            let mut act = dc;
                            let mut slab = 0.0f64;
                            for k in inp.dim..3 {
                                slab = slab.max(act[k].abs());
                                act[k] = 0.0;
                            }
                            act.length() > 100.0 * tl * (1.0 + scale_area / a).min(1e4) || slab > 1e-9
                        } {
                            fails.push(TessFail { prop: "C03", what: "face centroid differs between its two sides".into(),
                                detail: json!({"i": i, "j": j, "shift": sc}) });
                        }
                        if (f.integral().n_in + g.integral().n_in).length() > 1e-9 {
                            fails.push(TessFail { prop: "C03", what: "face normals of the two sides are not opposite".into(), detail: json!({"i": i, "j": j}) });
                        }
                    }
                }
                if !found {
                    fails.push(TessFail { prop: "C03", what: "face of non-negligible area is seen from one side only".into(),
                        detail: json!({"i": i, "j": j, "shift": sc, "area": a}) });
                }
            }
        }
    }
    // ---- C04 on the compact tessellation: unit normals away from the left generator, centroid on the
    // bisector, closed surface and divergence theorem per constructed cell
    let tol_area = 20.0 * tl * l.powi(inp.dim as i32 - 2).max(1e-300);
    let tol_vol = 50.0 * tl * l.powi(inp.dim as i32 - 1);
    let proj = |g: DVec3| -> DVec3 {
        let mut q = g;
        for k in inp.dim..3 {
            q[k] = 0.0;
        }
        q
    };
    for (i, c) in direct.cells().iter().enumerate() {
        if !active[i] {
            continue;
        }
        let gi = proj(inp.gens[i]);
        let mut closure = DVec3::ZERO;
        let mut div = 0.0;
        for f in c.faces(&direct) {
            let nrm = f.normal();
            if (nrm.length() - 1.0).abs() > 1e-12 {
                fails.push(TessFail { prop: "C04", what: "face normal is not a unit vector".into(), detail: json!({"cell": i, "normal": nrm.to_array()}) });
            }
            for k in inp.dim..3 {
                if nrm[k] != 0.0 {
                    fails.push(TessFail { prop: "C08", what: "reported face normal leaves the active subspace".into(), detail: json!({"cell": i}) });
                }
            }
            let lg = proj(inp.gens[f.left()]);
            if let Some(r) = f.right() {
                let target = proj(inp.gens[r]) + f.shift().unwrap_or(DVec3::ZERO);
                if f.area() > tol_area.max(thr) && !(nrm.dot(target - lg) > 0.0) {
                    fails.push(TessFail { prop: "C04", what: "face normal does not point away from the left generator".into(),
                        detail: json!({"cell": i, "left": f.left(), "right": r}) });
                }
                let mid = 0.5 * (lg + target);
                let off = (f.centroid() - mid).dot((target - lg).normalize());
                if f.area() > 1e3 * tol_area.max(thr) && off.abs() > 100.0 * tl {
                    fails.push(TessFail { prop: "C04", what: "face centroid is off the bisector plane".into(), detail: json!({"cell": i, "off": off}) });
                }
            } else if f.area() > tol_area.max(thr) {
                let k = (0..3).max_by(|&a, &b| nrm[a].abs().partial_cmp(&nrm[b].abs()).unwrap()).unwrap();
                let wall = if nrm[k] > 0.0 { anchor[k] + width[k] } else { anchor[k] };
                let axis_ok = (0..3).all(|m| if m == k { nrm[m].abs() == 1.0 } else { nrm[m] == 0.0 });
                if !axis_ok || (f.centroid()[k] - wall).abs() > 100.0 * tl || (inp.per && k < inp.dim) {
                    fails.push(TessFail { prop: "C04", what: "boundary face normal does not point outward through its wall".into(), detail: json!({"cell": i, "normal": nrm.to_array()}) });
                }
            }
            let n_out = if f.left() == i && !(f.right() == Some(i) && f.shift().is_none()) { nrm } else { -nrm };
            closure += f.area() * n_out;
            // the centroid of a face of negligible area is meaningless (reported as the origin when the area
            // integral is not positive): such faces are left out of the divergence sum
            if f.area() > tol_area.max(thr) {
                div += f.area() * n_out.dot(f.centroid() - gi);
            }
        }
        // in a partial build a selected cell still lists all its faces (faces towards unselected
        // neighbours are constructed by the selected cell), so the identities hold for every constructed cell
        let nf = c.face_count().max(4) as f64;
        if closure.length() > nf * tol_area {
            fails.push(TessFail { prop: "C04", what: "area-weighted outward normals do not sum to zero".into(), detail: json!({"cell": i, "residual": closure.to_array(), "tol": nf * tol_area}) });
        }
        if (div / inp.dim as f64 - c.volume()).abs() > nf * tol_vol {
            fails.push(TessFail { prop: "C04", what: "divergence theorem: (1/d) sum area n.(c-g) differs from the volume".into(), detail: json!({"cell": i, "lhs": div / inp.dim as f64, "volume": c.volume()}) });
        }
        // ---- C16: safety radius >= 2 * distance to the farthest vertex of the cell (active subspace)
        if let Some(cell) = integ.get_cell_at(i) {
            let rmax = cell.vertices.iter().map(|v| proj(v.loc - DVec3::ZERO).distance(gi) ).fold(0.0, f64::max);
            let rmax = if inp.dim < 3 { cell.vertices.iter().map(|v| proj(v.loc).distance(gi)).fold(0.0, f64::max) } else { rmax };
            if !(c.safety_radius() >= 2.0 * rmax * (1.0 - 1e-12)) {
                fails.push(TessFail { prop: "C16", what: "safety radius smaller than twice the distance to the farthest vertex of the cell".into(),
                    detail: json!({"cell": i, "safety_radius": c.safety_radius(), "r_far": rmax, "nverts": cell.vertices.len()}) });
            }
        }
    }
    // antisymmetric flux over the compact tessellation cancels (C03): every cell sums, over the faces
    // it lists, area * g where g(i, j, s) = -g(j, i, -s); faces towards walls / unconstructed cells
    // are left out ("faces between constructed cells")
    let g = |i: usize, j: usize, code: i64| -> f64 {
        if i != j { if j > i { 1.0 } else { -1.0 } } else if code > 13 { 1.0 } else { -1.0 }
    };
    let mut flux = 0.0;
    let mut flux_abs = 0.0;
    for (i, c) in direct.cells().iter().enumerate() {
        if !active[i] {
            continue;
        }
        for f in c.faces(&direct) {
            if let Some(r) = f.right() {
                if !active[r] || !active[f.left()] {
                    continue;
                }
                let code = shift_code(f.shift(), width);
                let contrib = if f.left() == i && (f.shift().is_some() || r != i) {
                    f.area() * g(f.left(), r, code)
                } else {
                    -f.area() * g(f.left(), r, code)
                };
                flux += contrib;
                flux_abs += f.area();
            }
        }
    }
    if flux.abs() > 1e-9 * flux_abs.max(scale_area) + 50.0 * tl * l.powi(inp.dim as i32 - 2).max(1e-300) * (n as f64) {
        fails.push(TessFail { prop: "C03", what: "antisymmetric flux summed over all cells does not cancel".into(), detail: json!({"flux": flux, "sum_abs": flux_abs}) });
    }
    // ---- C16, second clause: generators added anywhere farther from a generator than its reported safety radius
    // leave its cell unchanged.  For up to three cells of the full run: add 1..3 generators outside the safety ball
    // (the first one just outside it - the adversarial place), rebuild that cell alone and record both cells for TLC.
    let mut far: Vec<Value> = vec![];
    if full_line && mask.is_none() {
        let mut rng = StdRng::seed_from_u64(0xFA2 ^ (inp.id as u64) ^ ((n as u64) << 20));
        let base = voronoi_record(&direct, width, scale_area);
        let mut tried = 0;
        for _ in 0..12 {
            if far.len() >= 3 || tried >= 8 {
                break;
            }
            tried += 1;
            let i = rng.gen_range(0..n);
            let gi = proj(inp.gens[i]);
            let sr = direct.cells()[i].safety_radius();
            // distance in the active subspace to the nearest periodic image
            let dist = |q: DVec3| -> f64 {
                let mut d2 = 0.0;
                for k in 0..inp.dim {
                    let mut d = (q[k] - gi[k]).abs();
                    if inp.per {
                        d = d.min((d - inp.width[k]).abs());
                    }
                    d2 += d * d;
                }
                d2.sqrt()
            };
            let mut extra: Vec<DVec3> = vec![];
            let want = rng.gen_range(1..=3);
            for t in 0..400 {
                if extra.len() >= want {
                    break;
                }
                let u = DVec3::new(rng.gen_range(0.0..1.0), rng.gen_range(0.0..1.0), rng.gen_range(0.0..1.0));
                let mut q = inp.anchor + u * inp.width;
                if extra.is_empty() && t < 200 {
                    // pull the first one towards the sphere of radius sr * (1 + 1e-6 .. 1e-2) around the generator
                    let dir = (proj(q) - gi).normalize_or_zero();
                    let fac = 1.0 + 10f64.powf(rng.gen_range(-6.0..-2.0));
                    let cand = gi + dir * sr * fac;
                    let inside = (0..inp.dim).all(|k| cand[k] >= inp.anchor[k] && cand[k] <= inp.anchor[k] + inp.width[k]);
                    if !inside {
                        continue;
                    }
                    for k in 0..inp.dim {
                        q[k] = cand[k];
                    }
                }
                if dist(q) > sr * (1.0 + 1e-9) && inp.gens.iter().chain(extra.iter()).all(|g| (0..inp.dim).any(|k| g[k] != q[k])) {
                    extra.push(q);
                }
            }
            if extra.is_empty() {
                continue; // the safety ball covers the whole box
            }
            let mut gens2 = inp.gens.clone();
            gens2.extend(extra.iter().cloned());
            let mut m2 = vec![false; gens2.len()];
            m2[i] = true;
            let re = guarded(|| Voronoi::build_partial(&gens2, &m2, inp.anchor, inp.width, dim, inp.per));
            match re {
                Err(msg) => fails.push(TessFail { prop: "C16", what: "panic when generators are added outside the safety ball".into(), detail: json!({"cell": i, "message": msg}) }),
                Ok(v2) => {
                    let r2 = voronoi_record(&v2, width, scale_area);
                    let c0 = &direct.cells()[i];
                    let c2 = &v2.cells()[i];
                    let dv = (c2.volume() - c0.volume()).abs();
                    let dc = (c2.centroid() - c0.centroid()).length();
                    if dv > 50.0 * tl * l.powi(inp.dim as i32 - 1) || dc > 200.0 * tl {
                        fails.push(TessFail { prop: "C16", what: "cell changed although every added generator lies outside its safety ball".into(),
                            detail: json!({"cell": i, "volume_before": c0.volume(), "volume_after": c2.volume(), "centroid_shift": dc,
                                           "safety_radius": sr, "added": extra.iter().map(|q| q.to_array()).collect::<Vec<_>>(),
                                           "distances": extra.iter().map(|q| dist(*q)).collect::<Vec<_>>()}) });
                    }
                    far.push(json!({"i": i + 1, "srq": qi(sr / l), "dq": extra.iter().map(|q| qi(dist(*q) / l)).collect::<Vec<i64>>(),
                                    "volq0": qi(c0.volume() / box_measure), "volq1": qi(c2.volume() / box_measure),
                                    "srq1": qi(c2.safety_radius() / l),
                                    "fset0": base["fset"][i], "fset1": r2["fset"][i], "nadd": extra.len()}));
                }
            }
        }
    }
    // ---- sequences of operations on the same objects: results are a pure function of the input, nothing may be left over
    // from earlier calls (C09 / C13): convert the integrator again AFTER all compute_* calls, evaluate the integrals a second
    // time, build the tessellation a second time
    {
        let tok0 = dump_token(&conv);
        let conv2 = Voronoi::from(&integ);
        if dump_token(&conv2) != tok0 {
            fails.push(TessFail { prop: "C13", what: "converting the same integrator a second time (after compute_* calls) gives a different tessellation".into(), detail: json!({}) });
        }
        let vols2 = integ.compute_cell_integrals::<VolumeCentroidIntegral>();
        if vols2.len() != vols.len() || vols2.iter().zip(vols.iter()).any(|(a, b)| a.volume.to_bits() != b.volume.to_bits() || hex3(a.centroid) != hex3(b.centroid)) {
            fails.push(TessFail { prop: "C13", what: "compute_cell_integrals called twice on the same integrator gives different results".into(), detail: json!({}) });
        }
        let sym2 = integ.compute_face_integrals_sym::<AreaCentroidIntegral>();
        if sym2.len() != sym_all.len() || sym2.iter().zip(sym_all.iter()).any(|(a, b)| a.integral().area.to_bits() != b.integral().area.to_bits() || a.left() != b.left() || a.right() != b.right()) {
            fails.push(TessFail { prop: "C13", what: "compute_face_integrals_sym called twice on the same integrator gives different results".into(), detail: json!({}) });
        }
        let again = guarded(|| match mref {
            None => Voronoi::build(&inp.gens, inp.anchor, inp.width, dim, inp.per),
            Some(m) => Voronoi::build_partial(&inp.gens, m, inp.anchor, inp.width, dim, inp.per),
        });
        match again {
            Ok(v2) => {
                if dump_token(&v2) != dump_token(&direct) {
                    fails.push(TessFail { prop: "C09", what: "building the same tessellation a second time gives a different result".into(), detail: json!({}) });
                }
            }
            Err(msg) => fails.push(TessFail { prop: "C09", what: "building the same tessellation a second time panics".into(), detail: json!({"message": msg}) }),
        }
    }
    // ---- the same integrator after with_faces (3D): the mask must still select the same cells, at the same positions, with the
    // same measures up to rounding (C07: restriction to the mask; C13: cells with and without stored face information agree)
    if inp.dim == 3 {
        match guarded(|| integ.clone().with_faces()) {
            Ok(wf) => {
                let convf = Voronoi::from(&wf);
                for i in 0..n {
                    let cell = wf.get_cell_at(i);
                    if cell.is_some() != active[i] || cell.map_or(false, |c| c.idx != i) {
                        fails.push(TessFail { prop: "C07", what: "after with_faces, get_cell_at(i) is not the cell of generator i exactly for the selected generators".into(),
                            detail: json!({"cell": i, "selected": active[i], "present": cell.is_some(), "idx": cell.map(|c| c.idx)}) });
                        break;
                    }
                    if convf.cells()[i].safety_radius().to_bits() != direct.cells()[i].safety_radius().to_bits() {
                        fails.push(TessFail { prop: "C16", what: "safety radius of the tessellation converted from the integrator with faces differs from the direct build".into(),
                            detail: json!({"cell": i, "direct": direct.cells()[i].safety_radius(), "with_faces": convf.cells()[i].safety_radius()}) });
                        fails.push(TessFail { prop: "C13", what: "safety radius of the tessellation converted from the integrator with faces differs from the direct build".into(),
                            detail: json!({"cell": i, "direct": direct.cells()[i].safety_radius(), "with_faces": convf.cells()[i].safety_radius()}) });
                        break;
                    }
                    let (v0, v1) = (direct.cells()[i].volume(), convf.cells()[i].volume());
                    if (v0 - v1).abs() > tol_vol || (v1 != 0.0) != active[i] && inp.min_sep_rel() > 1e-4 {
                        fails.push(TessFail { prop: "C07", what: "tessellation converted from the integrator with faces differs from the direct (masked) build".into(),
                            detail: json!({"cell": i, "selected": active[i], "volume_direct": v0, "volume_with_faces": v1}) });
                        break;
                    }
                }
                let vf = wf.compute_cell_integrals::<VolumeCentroidIntegral>();
                if vf.len() != vols.len() || vf.iter().zip(vols.iter()).any(|(a, b)| (a.volume - b.volume).abs() > tol_vol) {
                    fails.push(TessFail { prop: "C13", what: "cell integrals with stored face information differ from those without".into(),
                        detail: json!({"with_faces": vf.len(), "without": vols.len()}) });
                }
            }
            Err(msg) => fails.push(TessFail { prop: "C05", what: "panic in with_faces".into(), detail: json!({"message": msg}) }),
        }
    }
    let wq: Vec<i64> = (0..3).map(|k| qi(width[k] / l)).collect();
    let line = json!({
        "far": far,
        "e": "tess", "id": inp.id, "full": full_line, "n": n, "dim": inp.dim, "per": inp.per,
        "hasmask": mask.is_some(), "mask": active,
        "cps": cps, "volq": volq, "wq": wq,
        "vpos": (0..n).map(|i| !active[i] || direct.cells()[i].volume() > 0.0).collect::<Vec<bool>>(),
        "direct": voronoi_record(&direct, width, scale_area),
        "integ": voronoi_record(&conv, width, scale_area),
        "nonsym": nonsym, "sym": sym,
    });
    (Some(line), fails, None)
}

pub fn main_tess(args: &[String]) -> i32 {
    let mut out_path = String::new();
    let mut trace_path = String::new();
    let mut tier = "quick".to_string();
    let mut seed = 0u64;
    let mut count = 30usize;
    let mut nmax = 24usize;
    let mut inputs_path: Option<String> = None;
    let mut extra_onwall = false;
    let mut closepairs = 0usize;
    let mut i = 0;
    while i < args.len() {
        match args[i].as_str() {
            "--out" => { out_path = args[i + 1].clone(); i += 1 }
            "--trace" => { trace_path = args[i + 1].clone(); i += 1 }
            "--tier" => { tier = args[i + 1].clone(); i += 1 }
            "--seed" => { seed = args[i + 1].parse().unwrap(); i += 1 }
            "--count" => { count = args[i + 1].parse().unwrap(); i += 1 }
            "--nmax" => { nmax = args[i + 1].parse().unwrap(); i += 1 }
            "--closepairs" => { closepairs = args[i + 1].parse().unwrap(); i += 1 }
            "--inputs" => { inputs_path = Some(args[i + 1].clone()); i += 1 }
            "--extra-onwall" => { extra_onwall = true }
            _ => {}
        }
        i += 1;
    }
    install_quiet_panic_hook();
    let inputs_from_file = inputs_path.clone();
    let mut inputs = match inputs_path {
        Some(p) => read_inputs(&p),
        None => float_inputs(seed, count, nmax, &[1, 2, 3, 3]),
    };
    // C13 only: one more reflective 3D input with generators exactly on walls, away from the middle of their wall (the stored
    // faces of such cells and the integrator's face integrals must agree); drawn from its own random stream
    if extra_onwall && inputs_from_file.is_none() {
        let mut r3 = StdRng::seed_from_u64(seed ^ 0x0A11_C13);
        let anchor = DVec3::new(1.3, 2.1, 1.7);
        let width = DVec3::splat(1.7);
        let mut gens: Vec<DVec3> = vec![];
        for j in 0..14 {
            let u = DVec3::new(r3.gen_range(0.08..0.92), r3.gen_range(0.08..0.92), r3.gen_range(0.08..0.92));
            let mut p = anchor + u * width;
            if j < 6 {
                let k = j % 3;
                p[k] = if j < 3 { anchor[k] } else { anchor[k] + width[k] };
            }
            gens.push(p);
        }
        let id = inputs.len();
        inputs.push(FInput { id, kind: "onwall".into(), gens, anchor, width, dim: 3, per: false });
    }
    // a cell with more than 256 faces (count thresholds in per-cell bookkeeping); recorded for the full run only
    if inputs_from_file.is_none() {
        let id = inputs.len();
        inputs.push(refine_input(id, 3, 270, seed ^ 0x2F));
    }
    // C05 only: generators closer than 1e-8 of the box (known finding F11: the builder is not robust there)
    {
        let mut r2 = StdRng::seed_from_u64(seed ^ 0xC105E);
        for k in 0..closepairs {
            let n = r2.gen_range(6..=16);
            let dim = if k % 3 == 2 { 2 } else { 3 };
            let mut gens: Vec<DVec3> = (0..n).map(|_| DVec3::new(r2.gen_range(0.05..0.95), r2.gen_range(0.05..0.95), r2.gen_range(0.05..0.95))).collect();
            for j in 0..2 {
                let d = DVec3::new(r2.gen_range(-1.0..1.0), r2.gen_range(-1.0..1.0), if dim == 3 { r2.gen_range(-1.0..1.0) } else { 0.0 }).normalize_or_zero();
                gens.push(gens[j] + d * 10f64.powf(r2.gen_range(-12.0..-8.5)));
            }
            let id = inputs.len();
            if k % 3 == 2 {
                // known finding F14: several hundred generators on a common sphere (Fibonacci lattice, constant radius)
                let m = [200usize, 300, 400][(k / 3) % 3];
                let rr = [0.3, 0.2, 0.4][(k / 3 + seed as usize) % 3];
                let mut g2: Vec<DVec3> = if k % 2 == 0 { vec![DVec3::splat(0.5)] } else { vec![] };
                for i in 0..m {
                    let z = 1.0 - 2.0 * (i as f64 + 0.5) / m as f64;
                    let r = (1.0 - z * z).sqrt();
                    let phi = i as f64 * 2.399963229728653;
                    g2.push(DVec3::new(0.5 + rr * r * phi.cos(), 0.5 + rr * r * phi.sin(), 0.5 + rr * z));
                }
                inputs.push(FInput { id, kind: "cosphere".into(), gens: g2, anchor: DVec3::ZERO, width: DVec3::ONE, dim: 3, per: false });
                continue;
            }
            if k % 2 == 1 {
                // a tight cluster instead: two thirds of the points in a cube of side 1e-9 .. 1e-5
                let c = DVec3::new(r2.gen_range(0.2..0.8), r2.gen_range(0.2..0.8), r2.gen_range(0.2..0.8));
                let r = 10f64.powf(r2.gen_range(-9.0..-5.0));
                let m = gens.len();
                for (i, g) in gens.iter_mut().enumerate() {
                    if i < 2 * m / 3 {
                        *g = c + r * (*g - DVec3::splat(0.5));
                    }
                }
            }
            inputs.push(FInput { id, kind: "closepairs".into(), gens, anchor: DVec3::ZERO, width: DVec3::ONE, dim, per: k % 4 < 2 });
        }
    }
    let mut rng = StdRng::seed_from_u64(seed ^ 0xABCDEF);
    let mut f = std::io::BufWriter::new(std::fs::File::create(&trace_path).unwrap());
    let mut failures: Vec<Value> = vec![];
    let mut panics: Vec<Value> = vec![];
    let mut lines = 0usize;
    let mut samples: Vec<Value> = vec![];
    let mut masks_total = 0usize;
    let mut cells_total = 0usize;
    for inp in inputs.iter() {
        let mut masks = masks_for(inp.gens.len(), &mut rng, &tier);
        if inp.kind == "refine" {
            // the full run and ONE partial run: only the central cell selected (index arithmetic on more than 256 cells)
            masks.truncate(1);
            masks.push(Some((0..inp.gens.len()).map(|i| i == 0).collect()));
        }
        for (mi, m) in masks.iter().enumerate() {
            masks_total += 1;
            let (line, fails, panic) = record(inp, m, mi == 0);
            if let Some(msg) = panic {
                panics.push(json!({"input": inp.to_json(), "mask": m, "message": msg}));
                if mi == 0 {
                    break; // no full record: the masked lines cannot be compared
                }
                continue;
            }
            for fl in fails {
                failures.push(json!({"prop": fl.prop, "what": fl.what, "detail": fl.detail, "input": inp.to_json(), "mask": m}));
            }
            if let Some(l) = line {
                writeln!(f, "{}", serde_json::to_string(&l).unwrap()).unwrap();
                lines += 1;
                cells_total += inp.gens.len();
                if samples.len() < 2 && mi == 2 {
                    samples.push(json!({"input": inp.to_json(), "mask": m}));
                }
            }
        }
    }
    // ---- one LARGE, strongly multi-scale input (20 000 generators in a small cube + 60 isolated ones, interleaved in index
    // order): size thresholds on the number of generators, state carried from one cell to the next inside a job.  Checked in
    // the harness only (measures sum to the box, safety radius reaches the nearest neighbour) - too large to record for TLC.
    if inputs_from_file.is_none() {
        let mut r3 = StdRng::seed_from_u64(seed ^ 0xB165CA1E);
        let n_small = 20000usize;
        let n_iso = 60usize;
        let mut gens: Vec<DVec3> = (0..n_small)
            .map(|_| DVec3::new(r3.gen_range(0.45..0.55), r3.gen_range(0.45..0.55), r3.gen_range(0.45..0.55)))
            .collect();
        let mut iso_idx: Vec<usize> = vec![];
        for _ in 0..n_iso {
            let mut p;
            loop {
                p = DVec3::new(r3.gen_range(0.02..0.98), r3.gen_range(0.02..0.98), r3.gen_range(0.02..0.98));
                if (p - DVec3::splat(0.5)).abs().max_element() > 0.2 {
                    break;
                }
            }
            let at = r3.gen_range(0..=gens.len());
            gens.insert(at, p);
            for i in iso_idx.iter_mut() {
                if *i >= at {
                    *i += 1;
                }
            }
            iso_idx.push(at);
        }
        let inp = FInput { id: inputs.len(), kind: "multiscale".into(), gens: vec![], anchor: DVec3::ZERO, width: DVec3::ONE, dim: 3, per: false };
        match guarded(|| Voronoi::build(&gens, DVec3::ZERO, DVec3::ONE, Dimensionality::ThreeD, false)) {
            Err(msg) => panics.push(json!({"input": inp.to_json(), "mask": Value::Null, "message": msg})),
            Ok(v) => {
                let total: f64 = v.cells().iter().map(|c| c.volume()).sum();
                if (total - 1.0).abs() > 1e-9 {
                    for prop in ["C02", "C16"] {
                        failures.push(json!({"prop": prop, "what": "cell measures do not sum to the box measure (20 060 generators, multi-scale)",
                            "detail": {"sum": total, "box": 1.0}, "input": inp.to_json(), "mask": Value::Null}));
                    }
                }
                for &i in &iso_idx {
                    let g = gens[i];
                    let mut dmin = f64::INFINITY;
                    for (j, q) in gens.iter().enumerate() {
                        if j != i {
                            dmin = dmin.min(g.distance(*q));
                        }
                    }
                    let sr = v.cells()[i].safety_radius();
                    if !(sr >= dmin * (1.0 - 1e-12)) {
                        failures.push(json!({"prop": "C16", "what": "safety radius of an isolated generator is smaller than the distance to its nearest neighbour",
                            "detail": {"cell": i, "safety_radius": sr, "nearest": dmin, "volume": v.cells()[i].volume()}, "input": inp.to_json(), "mask": Value::Null}));
                        break;
                    }
                }
                cells_total += gens.len();
            }
        }
    }
    let meta: Vec<Value> = inputs.iter().map(|x| json!({"id": x.id, "kind": x.kind, "minsep": x.min_sep_rel().min(1e300), "trisep": x.tri_sep_rel().min(1e300)})).collect();
    let result = json!({"inputs_meta": meta, "stats": {"inputs": inputs.len(), "lines": lines, "masks": masks_total, "cells": cells_total, "panics": panics.len()},
                        "failures": failures, "panics": panics, "samples": samples});
    std::fs::write(&out_path, serde_json::to_string(&result).unwrap()).unwrap();
    0
}

pub fn read_inputs(path: &str) -> Vec<FInput> {
    let txt = std::fs::read_to_string(path).unwrap();
    let mut v = vec![];
    for line in txt.lines() {
        if line.trim().is_empty() {
            continue;
        }
        let j: Value = serde_json::from_str(line).unwrap();
        let a3 = |x: &Value| DVec3::new(x[0].as_f64().unwrap(), x[1].as_f64().unwrap(), x[2].as_f64().unwrap());
        v.push(FInput {
            id: j["id"].as_u64().unwrap_or(0) as usize,
            kind: j["kind"].as_str().unwrap_or("file").to_string(),
            gens: j["gens"].as_array().unwrap().iter().map(a3).collect(),
            anchor: a3(&j["anchor"]),
            width: a3(&j["width"]),
            dim: j["dim"].as_u64().unwrap() as usize,
            per: j["per"].as_bool().unwrap(),
        });
    }
    v
}
