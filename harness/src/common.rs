//! Shared pieces of the conformance harness: lattice inputs, embeddings into f64 boxes,
//! tokens, panic capture, a small polytope integrator (trusted base, independent of the library).

use glam::DVec3;
use meshless_voronoi::Dimensionality;
use serde_json::{json, Value};
use std::panic::{catch_unwind, AssertUnwindSafe};
use std::sync::Mutex;

/// A lattice input exactly as the TLA+ specification sees it.
#[derive(Clone, Debug)]
pub struct LInput {
    pub id: i64,
    pub g: [i64; 3],
    pub dim: usize,
    pub per: bool,
    pub gens: Vec<[i64; 3]>,
}

impl LInput {
    pub fn from_json(v: &Value) -> LInput {
        let arr3 = |x: &Value| -> [i64; 3] {
            [x[0].as_i64().unwrap(), x[1].as_i64().unwrap(), x[2].as_i64().unwrap()]
        };
        LInput {
            id: v["id"].as_i64().unwrap_or(0),
            g: arr3(&v["G"]),
            dim: v["dim"].as_u64().unwrap() as usize,
            per: v["per"].as_bool().unwrap(),
            gens: v["gens"].as_array().unwrap().iter().map(arr3).collect(),
        }
    }
    pub fn to_json(&self) -> Value {
        json!({"id": self.id, "G": self.g, "dim": self.dim, "per": self.per, "gens": self.gens})
    }
    pub fn key(&self) -> String {
        format!("{:?}|{}|{}|{:?}", self.g, self.dim, self.per, self.gens)
    }
    pub fn dimensionality(&self) -> Dimensionality {
        match self.dim {
            1 => Dimensionality::OneD,
            2 => Dimensionality::TwoD,
            _ => Dimensionality::ThreeD,
        }
    }
    pub fn active(&self, k: usize) -> bool {
        k < self.dim
    }
}

/// Similarity embedding of the lattice into a floating-point box: x = o + h * X on the active
/// axes.  Unused axes: the specification's slab [-1, 1] is the code's [-0.5, 0.5]; the values the
/// harness passes for the unused components of generators / anchor / width are `junk` (the
/// library must ignore them, C08).
#[derive(Clone, Debug)]
pub struct Embedding {
    pub h: f64,
    pub o: [f64; 3],
    pub junk: Option<[f64; 3]>,
    pub name: String,
}

impl Embedding {
    pub fn new(h: f64, o: [f64; 3]) -> Self {
        Embedding { h, o, junk: None, name: format!("h={:e},o={:?}", h, o) }
    }
    pub fn to_json(&self) -> Value {
        json!({"h": self.h, "o": self.o, "junk": self.junk, "name": self.name})
    }
    /// Embed a rational lattice point X/W.
    pub fn point(&self, inp: &LInput, hom: [i64; 4]) -> DVec3 {
        let w = hom[3] as f64;
        let mut r = [0.0; 3];
        for k in 0..3 {
            let x = hom[k] as f64 / w;
            r[k] = if inp.active(k) { self.o[k] + self.h * x } else { 0.5 * x };
        }
        DVec3::from_array(r)
    }
    pub fn lattice(&self, inp: &LInput, p: [i64; 3]) -> DVec3 {
        self.point(inp, [p[0], p[1], p[2], 1])
    }
    /// Generator positions as handed to the library (unused components possibly junk).
    pub fn generators(&self, inp: &LInput) -> Vec<DVec3> {
        inp.gens
            .iter()
            .enumerate()
            .map(|(i, g)| {
                let mut p = self.lattice(inp, *g);
                if let Some(j) = self.junk {
                    for k in inp.dim..3 {
                        // different junk per generator
                        p[k] = j[k] * (1.0 + i as f64) - 3.0 * i as f64;
                    }
                }
                p
            })
            .collect()
    }
    pub fn anchor(&self, inp: &LInput) -> DVec3 {
        let mut a = DVec3::ZERO;
        for k in 0..3 {
            a[k] = if inp.active(k) {
                self.o[k]
            } else if let Some(j) = self.junk {
                j[k] * 7.0 - 1.0
            } else {
                -0.5
            };
        }
        a
    }
    pub fn width(&self, inp: &LInput) -> DVec3 {
        let mut a = DVec3::ZERO;
        for k in 0..3 {
            a[k] = if inp.active(k) {
                self.h * inp.g[k] as f64
            } else if let Some(j) = self.junk {
                j[k].abs() * 3.0 + 0.25
            } else {
                1.0
            };
        }
        a
    }
    /// Length scale of the embedded box (largest active width).
    pub fn scale(&self, inp: &LInput) -> f64 {
        (0..inp.dim).map(|k| self.h * inp.g[k] as f64).fold(0.0, f64::max)
    }
    /// Largest coordinate magnitude in play (for the rounding term of tolerances).
    pub fn magnitude(&self, inp: &LInput) -> f64 {
        let mut m: f64 = 1.0;
        for k in 0..inp.dim {
            let w = self.h * inp.g[k] as f64;
            m = m.max((self.o[k] - w).abs()).max((self.o[k] + 2.0 * w).abs());
        }
        m
    }
    /// Length tolerance: 1e-9 of the box scale plus 2^12 ulps of the largest coordinate.
    pub fn tol_len(&self, inp: &LInput) -> f64 {
        1e-9 * self.scale(inp) + 4096.0 * f64::EPSILON * self.magnitude(inp)
    }
}

pub fn hex(x: f64) -> String {
    format!("{:016x}", x.to_bits())
}
pub fn hex3(v: DVec3) -> String {
    format!("{}{}{}", hex(v.x), hex(v.y), hex(v.z))
}

static PANIC_MSG: Mutex<Option<String>> = Mutex::new(None);

/// Install a panic hook that records the message instead of printing it.
pub fn install_quiet_panic_hook() {
    std::panic::set_hook(Box::new(|info| {
        let msg = if let Some(s) = info.payload().downcast_ref::<&str>() {
            s.to_string()
        } else if let Some(s) = info.payload().downcast_ref::<String>() {
            s.clone()
        } else {
            "panic".to_string()
        };
        let loc = info.location().map(|l| format!("{}:{}", l.file(), l.line())).unwrap_or_default();
        *PANIC_MSG.lock().unwrap_or_else(|e| e.into_inner()) = Some(format!("{} @ {}", msg, loc));
    }));
}

/// Run `f`, turning a panic into `Err(message)`.  A panic in the code under test is data.
pub fn guarded<T>(f: impl FnOnce() -> T) -> Result<T, String> {
    match catch_unwind(AssertUnwindSafe(f)) {
        Ok(v) => Ok(v),
        Err(_) => Err(PANIC_MSG
            .lock()
            .unwrap_or_else(|e| e.into_inner())
            .take()
            .unwrap_or_else(|| "panic".to_string())),
    }
}

// ---------------------------------------------------------------------------------------------
// Reference polytope integration (trusted base): a convex polytope given by its vertex points
// and, per face plane, the indices of the vertices lying on it.
// ---------------------------------------------------------------------------------------------

#[derive(Clone, Debug)]
pub struct RefFace {
    /// index of the plane in the specification's plane list
    pub plane: usize,
    pub area: f64,
    pub centroid: DVec3,
    /// unit normal pointing out of the cell (away from the generator)
    pub normal_out: DVec3,
    pub npoints: usize,
}

/// Order points of a planar convex polygon counter-clockwise around `n` and return (area, centroid).
pub fn polygon(points: &[DVec3], n: DVec3) -> (f64, DVec3) {
    let m = points.len();
    let mut c = DVec3::ZERO;
    for p in points {
        c += *p;
    }
    c /= m as f64;
    // in-plane basis
    let a = if n.x.abs() <= n.y.abs() && n.x.abs() <= n.z.abs() {
        DVec3::X
    } else if n.y.abs() <= n.z.abs() {
        DVec3::Y
    } else {
        DVec3::Z
    };
    let u = n.cross(a).normalize();
    let v = n.cross(u);
    let mut idx: Vec<usize> = (0..m).collect();
    let ang: Vec<f64> = points.iter().map(|p| (*p - c).dot(v).atan2((*p - c).dot(u))).collect();
    idx.sort_by(|&i, &j| ang[i].partial_cmp(&ang[j]).unwrap());
    let mut area = 0.0;
    let mut cen = DVec3::ZERO;
    for k in 0..m {
        let p = points[idx[k]];
        let q = points[idx[(k + 1) % m]];
        let tri = 0.5 * (p - c).cross(q - c).dot(n);
        area += tri;
        cen += tri * (c + p + q) / 3.0;
    }
    if area.abs() > 0.0 {
        cen /= area;
    } else {
        cen = c;
    }
    (area.abs(), cen)
}

/// Volume and centroid of the convex polytope with the given faces, by pyramids from `apex`
/// (any point; the generator is used).
pub fn volume_centroid(faces: &[RefFace], apex: DVec3) -> (f64, DVec3) {
    let mut vol = 0.0;
    let mut cen = DVec3::ZERO;
    for f in faces {
        let hgt = (f.centroid - apex).dot(f.normal_out);
        let v = f.area * hgt / 3.0;
        vol += v;
        cen += v * (apex + 0.75 * (f.centroid - apex));
    }
    if vol != 0.0 {
        cen /= vol;
    }
    (vol, cen)
}

pub fn distinct_points(points: &[DVec3], tol: f64) -> Vec<DVec3> {
    let mut out: Vec<DVec3> = vec![];
    for p in points {
        if !out.iter().any(|q| q.distance(*p) <= tol) {
            out.push(*p);
        }
    }
    out
}

/// Largest distance of three or more points from a common line (0 if collinear).
pub fn non_collinearity(points: &[DVec3]) -> f64 {
    if points.len() < 3 {
        return 0.0;
    }
    let mut best = 0.0f64;
    let p0 = points[0];
    // farthest from p0
    let mut far = p0;
    for p in points {
        if p.distance(p0) > far.distance(p0) {
            far = *p;
        }
    }
    let d = far - p0;
    if d.length() == 0.0 {
        return 0.0;
    }
    let dn = d.normalize();
    for p in points {
        let r = *p - p0;
        let off = (r - r.dot(dn) * dn).length();
        best = best.max(off);
    }
    best
}
