"""Property checks.  Each check = TLC on an explicit TLA+ spec (design level) + conformance of the
implementation (replay of TLC's cases into the code and/or validation of recorded traces by a
TLA+ trace spec).  See DESIGN.md."""
import json
import os
import random
import sys
import time

from vvlib import (EVID, OUT, ROOT, SPEC, ToolError, build_harness, ensure_dirs, load_known_findings, log,
                   run_harness, run_tlc, write_cfg, write_evidence, write_replay)

# ----------------------------------------------------------------------------------------------
# lattice families (inputs of the cell machine VCell)
# ----------------------------------------------------------------------------------------------
VCELL_INVS = ["TypeOK", "NoDegenerate", "Closed", "Euler", "Oriented", "InsideCurrent", "Final",
              "SortedVisits", "SafetyBound", "PeriodicNoWalls", "ShiftLattice", "LowDimPrism", "QueriesInDomain"]


def fam(G, dim, per, nmin, nmax, order="all", fix=None, view=None):
    if fix is None:
        fix = per
    if view is None:
        view = (order == "all")
    return dict(G=G, dim=dim, per=per, nmin=nmin, nmax=nmax, order=order, fix=fix, view=view)


FAMILIES = {
    # exhaustive: every subset, every cell, every order of equidistant candidates (VIEW merges
    # states that differ only in plane numbering)
    "R3a": fam((2, 2, 2), 3, False, 1, 3),
    "R3s": fam((2, 2, 2), 3, False, 1, 2),
    "R3b": fam((2, 2, 2), 3, False, 4, 4),
    "R3x": fam((4, 2, 1), 3, False, 1, 3),
    "R3y": fam((3, 3, 3), 3, False, 1, 2),
    "P3a": fam((3, 3, 3), 3, True, 1, 1),
    "P3b": fam((3, 3, 3), 3, True, 2, 2, order="fixed"),
    "P3c": fam((3, 3, 3), 3, True, 2, 2),
    "P3x": fam((4, 3, 2), 3, True, 1, 2, order="fixed"),
    "P3z": fam((2, 4, 2), 3, True, 1, 2, order="fixed"),
    "P3w": fam((2, 2, 4), 3, True, 1, 2, order="fixed"),
    "P2a": fam((3, 3, 1), 2, True, 1, 3),
    "P2x": fam((4, 2, 1), 2, True, 1, 3),
    "P2b": fam((4, 4, 1), 2, True, 1, 3, order="fixed"),
    "D2a": fam((3, 3, 1), 2, False, 1, 3),
    "D2x": fam((4, 2, 1), 2, False, 1, 4, order="fixed"),
    "D1a": fam((6, 1, 1), 1, False, 1, 4),
    "D1p": fam((5, 1, 1), 1, True, 1, 4),
}


def lattice_points(G, dim, per):
    hi = [g - 1 if per else g for g in G]
    pts = []
    for x in range(hi[0] + 1):
        for y in (range(hi[1] + 1) if dim >= 2 else [0]):
            for z in (range(hi[2] + 1) if dim >= 3 else [0]):
                pts.append((x, y, z))
    return pts


def sim_inputs(seed, count, tier, dims=(3,), pers=(False, True), start_id=1):
    """Seeded lattice inputs above the exhaustive bound: uniform, sub-lattice (many equidistant
    points), clustered, planar / collinear, wall-hugging, anisotropic boxes."""
    rng = random.Random(seed * 7919 + 17)
    out = []
    gmax = 8 if tier == "thorough" else 6
    nmax = 24 if tier == "thorough" else 12
    kinds = ["uniform", "sublattice", "cluster", "planar", "walls", "aniso", "line", "fcc", "bcc", "sheet"]
    i = 0
    while len(out) < count:
        kind = kinds[i % len(kinds)]
        i += 1
        dim = rng.choice(dims)
        if kind == "sheet" and 3 in dims:
            dim = 3
        per = rng.choice(pers)
        gcap = min(gmax, 4) if per else gmax          # periodic: images reach 3G, keep integers small
        if kind == "aniso":
            G = [rng.choice([gcap, max(2, gcap - 2)]), rng.choice([1, 2]), rng.choice([1, 2, 3])]
            rng.shuffle(G)
        elif kind == "sheet":
            # a box that is long along ONE axis (each axis in turn), generators in one or two layers across it
            G = [2, 2, 2]
            G[(i // len(kinds)) % 3] = gcap
        else:
            g = rng.randint(3 if not per else 3, gcap)
            G = [g, g, g]
        for k in range(dim, 3):
            G[k] = 1
        if per:
            G = [max(2, g) if k < dim else 1 for k, g in enumerate(G)]
        pts = lattice_points(G, dim, per)
        n = rng.randint(2, nmax)
        if kind == "uniform":
            sel = rng.sample(pts, min(n, len(pts)))
        elif kind == "sublattice":
            step = rng.choice([1, 2])
            sel = [p for p in pts if all(c % step == 0 for c in p)]
            if len(sel) > 40:
                sel = rng.sample(sel, 40)
        elif kind == "cluster":
            c = rng.choice(pts)
            near = [p for p in pts if max(abs(p[k] - c[k]) for k in range(3)) <= 1]
            sel = rng.sample(near, min(len(near), max(2, n // 2)))
            rest = [p for p in pts if p not in sel]
            sel += rng.sample(rest, min(len(rest), rng.randint(0, 3)))
        elif kind == "planar":
            ax = rng.randrange(dim)
            v = rng.choice(sorted(set(p[ax] for p in pts)))
            cand = [p for p in pts if p[ax] == v]
            sel = rng.sample(cand, min(len(cand), n))
        elif kind == "line":
            ax = rng.randrange(dim)
            base = rng.choice(pts)
            cand = [p for p in pts if all(p[k] == base[k] for k in range(3) if k != ax)]
            sel = cand if len(cand) <= n else rng.sample(cand, n)
        elif kind == "sheet":
            ax = max(range(3), key=lambda k: G[k]) if dim == 3 else max(range(dim), key=lambda k: G[k])
            levels = sorted(set(p[ax] for p in pts))
            l0 = rng.randrange(max(1, len(levels) - 1))
            layers = levels[l0:l0 + 2]                      # two adjacent layers: more than six generators, a wide gap across the period
            cand = [p for p in pts if p[ax] in layers]
            sel = cand if len(cand) <= max(n, 8) else rng.sample(cand, max(n, 8))
        elif kind in ("fcc", "bcc"):
            # face-centred / body-centred sub-lattices: cells with vertices where four or more faces meet
            if kind == "fcc":
                cand = [p for p in pts if sum(p[:dim]) % 2 == 0]
            else:
                cand = [p for p in pts if len({c % 2 for c in p[:dim]}) == 1]
            sel = cand if len(cand) <= 2 * nmax else rng.sample(cand, 2 * nmax)
        elif kind == "walls":
            hi = [g - 1 if per else g for g in G]
            cand = [p for p in pts if any(p[k] in (0, hi[k]) for k in range(dim))]
            sel = rng.sample(cand, min(len(cand), n))
        else:
            sel = rng.sample(pts, min(n, len(pts)))
        sel = sorted(set(sel))
        if len(sel) < 1:
            continue
        if per and len(out) % 2 == 1:
            # periodic: a generator on the lower wall of an axis is as valid on the UPPER wall (coordinate = anchor + width:
            # inside the closed box, still distinct from the others modulo the period)
            sel = sorted(tuple((G[k] if (p[k] == 0 and k < dim and rng.random() < 0.5) else p[k]) for k in range(3)) for p in sel)
        out.append({"id": start_id + len(out), "G": G, "dim": dim, "per": per, "gens": [list(p) for p in sel]})
    return out


# mapping of step-level trace verdicts to the property they speak about (others = spec drift)
VERDICT_PROP = {
    "candidate visited out of distance order": "C17",
    "candidate is not a fresh candidate of this cell": "C17",
    "terminated although a vertex is farther than half the distance to the candidate": "C16",
    "builder stopped before the candidate stream was exhausted or the safety radius reached": "C16",
    "removed set differs from the strictly clipped vertices (plus ties)": "C05",
    "removed vertices are not vertices of the cell": "C18",
    "created vertices are not the boundary of the removed dual disc": "C18",
    "vertices created although nothing was removed": "C18",
    "a final vertex is closer to another generator (cell is not the nearest-generator region)": "C01",
    "final dual triangulation is not a closed surface": "C18",
    "Euler relation fails": "C18",
    "a vertex triple is not counter-clockwise": "C18",
    "a vertex violates a stored half-space": "C01",
    "panic inside a clip": "C05",
    "builder did not finish this cell": "C05",
}
DRIFT = {"clipped although the safety radius was already below the distance",
         "final vertex triples differ from the replayed state"}

RUN_LEVEL_WHATS = ("cell measures do not sum", "area-weighted outward normals", "divergence theorem", "panic")


class LatticeRun:
    def __init__(self):
        self.states = 0
        self.transitions = 0
        self.tlc_wall = 0.0
        self.families = {}
        self.hstats = {}
        self.failures = []       # dicts from the harness, each with f["class"] in {"violation","F2"}
        self.verdicts = {}       # sampled trace: verdict -> count
        self.verdict_examples = {}
        self.trace_cells_ok = 0
        self.trace_cells = 0
        self.samples = []
        self.cells_compared = 0
        self.exact_runs = 0
        self.coverage = {}


def f2_key(inp):
    return json.dumps([list(inp["G"]), inp["dim"], bool(inp["per"]), [list(g) for g in inp["gens"]]], separators=(",", ":"))


def _load_f2_list():
    for f in load_known_findings():
        if f["id"] == "F2":
            return {"seeds": set(f.get("harvested_seeds", [])), "instances": set(f.get("instances", []))}
    return {"seeds": set(), "instances": set()}


F2_LIST = _load_f2_list()


def run_vcell_family(name, spec, tier, seed, cases_file, inputs_file=None, extra_invs=()):
    cfg = os.path.join(OUT, "tlc", "vcell_%s.cfg" % name)
    consts = dict(Inputs=("<-", "MCInputs"), Ties="keep", Order=spec["order"],
                  LGx=spec["G"][0], LGy=spec["G"][1], LGz=spec["G"][2], LDim=spec["dim"], LPer=spec["per"],
                  LNmin=spec["nmin"], LNmax=spec["nmax"], LFix=spec["fix"], UseFile=inputs_file is not None, Emit=True)
    write_cfg(cfg, constants=consts, invariants=VCELL_INVS + list(extra_invs) + ["EmitCaseFull"],
              view="AbstractView" if (spec["view"] and inputs_file is None) else None)
    env = {"VV_INPUTS": inputs_file} if inputs_file else {"VV_INPUTS": "/dev/null"}
    with open(cases_file, "a") as f:
        r = run_tlc("mc/MCVCell.tla", cfg, tag_sink={"CASE": f}, env_extra=env, timeout=3000, coverage=True)
    if r.violation:
        raise ToolError("VCell invariant violated in the model itself (%s): %s\n%s" % (name, r.violation, r.raw_tail[-3000:]))
    return r


def filter_ftrace(path, needed):
    """Keep only the case blocks (g, emb) of a failure trace that are needed for classification."""
    out = path + ".filtered"
    keep = False
    n = 0
    with open(path) as f, open(out, "w") as g:
        for line in f:
            if line.startswith('{"e":"case"') or '"e":"case"' in line[:40]:
                o = json.loads(line)
                keep = (o["g"], o["emb"]) in needed
                n += keep
            if keep:
                g.write(line)
    return out, n


def lattice_pipeline(families, tier, seed, sim=None, profile="release", features=None, tag="L", trace_cells=1200,
                     own_tags=None, extra_invs=()):
    """TLC(VCell) -> cases -> harness replay-cells -> VCellTrace on the sampled trace and on the
    traces of all failing runs.  Returns a LatticeRun."""
    ensure_dirs()
    run = LatticeRun()
    cases_file = os.path.join(OUT, "%s_cases.ndjson" % tag)
    open(cases_file, "w").close()
    for name in families:
        r = run_vcell_family(name, FAMILIES[name], tier, seed, cases_file, extra_invs=extra_invs)
        run.states += r.distinct
        run.transitions += r.states
        run.tlc_wall += r.wall
        run.families[name] = dict(states=r.distinct, transitions=r.states, wall=round(r.wall, 1), depth=r.depth)
        for k, v in r.coverage.items():
            run.coverage[k] = run.coverage.get(k, 0) + v
        log("VCell family %s: %d distinct states, %d transitions, %.1fs" % (name, r.distinct, r.states, r.wall))
    if sim:
        inputs = sim_inputs(seed, sim["count"], tier, dims=sim.get("dims", (3,)), pers=sim.get("pers", (False, True)))
        inf = os.path.join(OUT, "%s_siminputs.ndjson" % tag)
        with open(inf, "w") as f:
            for i in inputs:
                f.write(json.dumps(i) + "\n")
        spec = fam((1, 1, 1), 3, False, 1, 1, order="fixed", fix=False, view=False)
        r = run_vcell_family("sim", spec, tier, seed, cases_file, inputs_file=inf, extra_invs=extra_invs)
        run.states += r.distinct
        run.transitions += r.states
        run.tlc_wall += r.wall
        run.families["sim"] = dict(states=r.distinct, transitions=r.states, wall=round(r.wall, 1), inputs=len(inputs))
        log("VCell simulated inputs: %d inputs, %d distinct states, %.1fs" % (len(inputs), r.distinct, r.wall))
    # --- replay into the implementation
    binp = build_harness(profile=profile, features=features)
    res_file = os.path.join(OUT, "%s_result.json" % tag)
    trace_file = os.path.join(OUT, "%s_trace.ndjson" % tag)
    ftrace_file = os.path.join(OUT, "%s_ftrace.ndjson" % tag)
    t0 = time.time()
    run_harness(binp, ["replay-cells", "--cases", cases_file, "--out", res_file, "--trace", trace_file,
                       "--ftrace", ftrace_file, "--tier", tier, "--seed", str(seed),
                       "--max-trace-cells", str(trace_cells if tier == "quick" else 4 * trace_cells)])
    res = json.load(open(res_file))
    run.hstats = res["stats"]
    run.hstats["harness_wall"] = round(time.time() - t0, 1)
    run.samples = res["samples"]
    run.cells_compared = res["stats"]["cells_compared"]
    log("harness: %s" % res["stats"])
    # --- impl -> spec: sampled trace
    v1 = validate_cell_trace(trace_file)
    for v in v1:
        run.trace_cells += 1
        run.verdicts[v["verdict"]] = run.verdicts.get(v["verdict"], 0) + 1
        if v["verdict"] == "ok":
            run.trace_cells_ok += 1
        else:
            run.verdict_examples.setdefault(v["verdict"], v)
    # --- classification of failures by the trace of the failing runs
    fverd = {}
    owned = [f for f in res["failures"] if own_tags is None or f["prop"] in own_tags]
    if owned:
        needed = {(f.get("g"), f.get("emb_index")) for f in owned}
        ff, ncase = filter_ftrace(ftrace_file, needed)
        log("classifying %d owned failure(s) in %d failing run(s) with VCellTrace" % (len(owned), ncase))
        for v in validate_cell_trace(ff):
            fverd[(v["g"], v["emb"], v["cell"])] = v["verdict"]
    for f in owned:
        g, e = f.get("g"), f.get("emb_index")
        cell = f["detail"].get("cell") if isinstance(f.get("detail"), dict) else None
        runv = [v for (gg, ee, cc), v in fverd.items() if gg == g and ee == e]
        cls = "violation"
        if any(f["what"].startswith(w) for w in RUN_LEVEL_WHATS) or cell is None:
            if "discord" in runv:
                cls = "F2"
        else:
            if fverd.get((g, e, cell)) == "discord":
                cls = "F2"
        # Known finding F2 is listed by its INSTANCES: for the seeds whose residual instances have been enumerated on the unchanged
        # tree (known_findings.json, F2.harvested_seeds, quick tier) only the listed inputs are excused; a failure with the
        # structure of F2 on any other input is reported (a change that makes tie decisions inconsistent more often is a
        # regression, not the known finding).  Other seeds / the thorough tier fall back to the structural signature alone.
        if cls == "F2":
            k = f2_key(f["input"])
            if os.environ.get("VV_HARVEST"):
                print("HARVEST-F2 %s" % k)
            elif tier == "quick" and seed in F2_LIST["seeds"] and k not in F2_LIST["instances"]:
                cls = "violation"
                f["what"] = f["what"] + " (structure of known finding F2, but this input is not one of its listed instances)"
        f["class"] = cls
        f["trace_verdict"] = fverd.get((g, e, cell)) if cell is not None else sorted(set(runv))
        run.failures.append(f)
    return run


def validate_cell_trace(trace_file):
    if not os.path.exists(trace_file) or os.path.getsize(trace_file) == 0:
        return []
    cfg = os.path.join(OUT, "tlc", "vcelltrace.cfg")
    write_cfg(cfg, spec="TSpec", constants=dict(Inputs=("<-", "NoInputs"), Ties="any", Order="all"),
              invariants=["Consumed"], postcondition="TraceAccepted")
    r = run_tlc("trace/VCellTrace.tla", cfg, workers=1, dfs=True, env_extra={"VV_TRACE": trace_file},
                tags=("VERDICT",), timeout=3000, xmx="6g")
    if r.violation or not r.ok:
        raise ToolError("VCellTrace did not accept the trace file format: %s\n%s" % (r.violation or r.error, r.raw_tail[-2000:]))
    return [v for _, v in r.cases]


# ----------------------------------------------------------------------------------------------
# verdict helpers
# ----------------------------------------------------------------------------------------------
class Outcome:
    def __init__(self, prop, tier, seed):
        self.prop = prop
        self.tier = tier
        self.seed = seed
        self.violations = []    # (summary, replay_obj)
        self.known = {}         # finding id -> [count, example]
        self.t0 = time.time()
        self.coverage = {}
        self.assumptions = []

    def violation(self, summary, replay_obj):
        self.violations.append((summary, replay_obj))

    def known_hit(self, fid, example):
        if fid not in self.known:
            self.known[fid] = [0, example]
        self.known[fid][0] += 1

    def finish(self):
        findings = {f["id"]: f for f in load_known_findings()}
        rc = 0
        for fid, (cnt, ex) in sorted(self.known.items()):
            f = findings.get(fid)
            if f is None or f.get("status") != "open" or self.prop not in f.get("properties", []):
                # not a listed open finding for this property: it is a violation after all
                self.violation("failure attributed to %s, which is not an open known finding of %s" % (fid, self.prop), ex)
            else:
                print("KNOWN-FINDING: property=%s %s: %s (%d occurrence(s) in this run)" % (self.prop, fid, f["what"], cnt))
        seen = set()
        for k, (summary, obj) in enumerate(self.violations):
            if k >= 5:
                break
            key = summary
            if key in seen:
                continue
            seen.add(key)
            path = write_replay(self.prop, "%s_%d" % (self.tier, k), {"property": self.prop, "summary": summary, "case": obj,
                                                                    "seed": self.seed, "tier": self.tier})
            print("VIOLATION property=%s replay=%s" % (self.prop, path))
            print("  %s" % summary)
            rc = 1
        self.coverage["known_findings_hit"] = {k: v[0] for k, v in self.known.items()}
        self.coverage["violation_summaries"] = sorted({s for s, _ in self.violations})[:20]
        write_evidence(self.prop, self.tier, self.seed, self.coverage, time.time() - self.t0,
                       len(self.violations), assumptions=self.assumptions)
        print("%s %s: %s (%.0fs)" % (self.prop, self.tier, "VIOLATED" if rc else "held", time.time() - self.t0))
        return rc


def apply_lattice(out, run, own_tags, verdict_props=None, distinct_rule=None):
    """Fold a LatticeRun into an Outcome for the property that owns `own_tags`.  A panic (tag C05) defeats whatever property the run
    was made for (nothing can be compared): every lattice check owns it."""
    own_tags = set(own_tags) | {"C05"}
    verdict_props = verdict_props if verdict_props is not None else {out.prop}
    n_own = 0
    for f in run.failures:
        if f["prop"] not in own_tags:
            continue
        n_own += 1
        summary = "%s [%s] input=%s embedding=%s detail=%s" % (f["what"], f["prop"], json.dumps(f["input"]),
                                                            f.get("embedding", {}).get("name"), json.dumps(f["detail"])[:300])
        if f["class"] == "F2":
            out.known_hit("F2", f)
        else:
            out.violation(summary, f)
    for verdict, cnt in run.verdicts.items():
        if verdict in ("ok", "discord") or verdict in DRIFT:
            continue
        p = VERDICT_PROP.get(verdict)
        if p in verdict_props:
            out.violation("recorded builder trace rejected by VCellTrace: %s (%d cells)" % (verdict, cnt),
                          run.verdict_examples.get(verdict))
    cov = out.coverage
    cov["states"] = cov.get("states", 0) + run.states
    cov["transitions"] = cov.get("transitions", 0) + run.transitions
    cov["traces_validated_against_impl"] = cov.get("traces_validated_against_impl", 0) + run.trace_cells_ok
    cov.setdefault("samples", [])
    cov["samples"] += run.samples[:2]
    cov.setdefault("families", {}).update(run.families)
    cov["cells_replayed_and_compared"] = cov.get("cells_replayed_and_compared", 0) + run.cells_compared
    cov["evaluations"] = cov.get("evaluations", 0) + run.hstats.get("runs", 0)
    cov["harness"] = run.hstats
    cov["trace_verdicts"] = run.verdicts
    cov["spec_drift"] = {k: v for k, v in run.verdicts.items() if k in DRIFT}
    cov["action_coverage"] = run.coverage
    cov["failures_seen_all_tags"] = len(run.failures)
    cov["failures_owned"] = n_own
    return out


BASE_ASSUMPTIONS = [
    "TLC 1.8 and the CommunityModules evaluate the specification correctly",
    "the transcription of the Rust code into VCell/VGeom is faithful (bound by two-way conformance: replay of TLC's cells into the code and validation of the code's recorded steps by VCellTrace)",
    "harness comparators and its ~60-line polytope integrator (common.rs) are correct",
    "tolerance 1e-9 * box scale + 2^12 ulp of the largest coordinate separates rounding noise from defects",
]


# ----------------------------------------------------------------------------------------------
# per-property checks built on the lattice pipeline
# ----------------------------------------------------------------------------------------------
def check_C01(tier, seed):
    out = Outcome("C01", tier, seed)
    fams = ["R3a", "P3a", "P3b", "P2a", "D2a", "D1a"] if tier == "quick" else \
        ["R3a", "R3b", "R3x", "R3y", "P3a", "P3c", "P3x", "P2a", "P2x", "P2b", "D2a", "D2x", "D1a", "D1p"]
    run = lattice_pipeline(fams, tier, seed, sim=dict(count=40 if tier == "quick" else 800, dims=(3, 3, 2)), tag="C01",
                           own_tags={"C01", "C05"})
    apply_lattice(out, run, {"C01"}, {"C01"})
    out.coverage["rule"] = ("every (input, cell) that TLC finished; distinct = cells compared with the region TLC computed; "
                            "non-trivial = the cell was cut by at least one neighbour")
    out.coverage["distinct_nontrivial"] = run.cells_compared
    out.coverage["exhaustive"] = True
    out.assumptions = BASE_ASSUMPTIONS
    return out.finish()


def generic_lattice_check(prop, tier, seed, quick_fams, thorough_fams, sim_quick, sim_thorough, own_tags, verdict_props,
                          rule, profiles=("release",), trace_cells=800, with_tess=False, extra_invs=()):
    out = Outcome(prop, tier, seed)
    fams = quick_fams if tier == "quick" else thorough_fams
    sim = sim_quick if tier == "quick" else sim_thorough
    total_cells = 0
    for profile in profiles:
        run = lattice_pipeline(fams, tier, seed, sim=sim, profile=profile, tag="%s_%s" % (prop, profile),
                               own_tags=set(own_tags) | {"C05"}, trace_cells=trace_cells, extra_invs=extra_invs)
        apply_lattice(out, run, own_tags, verdict_props)
        total_cells += run.cells_compared
        out.coverage.setdefault("profiles", {})[profile] = run.hstats
    out.coverage["rule"] = rule
    out.coverage["distinct_nontrivial"] = total_cells
    out.coverage["exhaustive"] = True
    out.assumptions = BASE_ASSUMPTIONS
    if with_tess:
        # pipeline F: float inputs (general position, many-faced cells, masks) through the tess recorder + VTessTrace
        res, verdicts, trace_file = tess_pipeline(tier, seed, prop, closepairs=(9 if tier == "quick" else 45) if prop == "C05" else 0)
        apply_tess(out, res, verdicts, trace_file, prop)
        out.coverage["rule"] += " || pipeline F: " + TESS_RULE
    return out


def measure_model(out, tier, seed, fams, sim_count, tag, dims=(1, 2, 3)):
    """Design level of C02 / C14 / C04 (VMeasure, MCVMeasure, VTileTrace): on every finished cell of the cell machine both signed
    decompositions agree per plane (volume, moments up to degree two, signed area, face moments), the surface is closed, every
    face pyramid has volume area x height / 3 - exact rational identities evaluated by TLC in three prime fields -, and the
    exact volumes of the cells of every input sum to the measure of the box, whatever the order of equidistant candidates."""
    ensure_dirs()
    vol_file = os.path.join(OUT, "%s_vol.raw" % tag)
    inputs = sim_inputs(seed + 101, sim_count, tier, dims=dims)
    inf = os.path.join(OUT, "%s_measure_siminputs.ndjson" % tag)
    with open(inf, "w") as f:
        for i in inputs:
            f.write(json.dumps(i) + "\n")
    runs = [(name, FAMILIES[name], None) if isinstance(name, str) else (name[0], name[1], None) for name in fams]
    if sim_count:
        runs.append(("sim", fam((1, 1, 1), 3, False, 1, 1, order="fixed", fix=False, view=False), inf))
    states = 0
    with open(vol_file, "w") as vf:
        for name, spec, infile in runs:
            cfg = os.path.join(OUT, "tlc", "vmeasure_%s.cfg" % name)
            consts = dict(Inputs=("<-", "MCInputs"), Ties="keep", Order=spec["order"], LGx=spec["G"][0], LGy=spec["G"][1], LGz=spec["G"][2],
                          LDim=spec["dim"], LPer=spec["per"], LNmin=spec["nmin"], LNmax=spec["nmax"], LFix=spec["fix"],
                          UseFile=infile is not None, Emit=True)
            write_cfg(cfg, constants=consts, invariants=["TypeOK", "Closed", "Oriented", "MeasureOK", "EmitVol"],
                      view="AbstractView" if (spec["view"] and infile is None) else None)
            r = run_tlc("mc/MCVMeasure.tla", cfg, env_extra={"VV_INPUTS": infile or "/dev/null"}, timeout=3000,
                        tags=("VOL",), tag_sink={"VOL": vf})
            if r.violation:
                raise ToolError("VMeasure: an exact identity fails in the model itself (%s): %s\n%s" % (name, r.violation, r.raw_tail[-2000:]))
            states += r.distinct
            out.coverage["states"] = out.coverage.get("states", 0) + r.distinct
            out.coverage["transitions"] = out.coverage.get("transitions", 0) + r.states
            out.coverage.setdefault("models", {})["VMeasure/" + name] = dict(states=r.distinct, wall=round(r.wall, 1))
            log("VMeasure model %s: %d states (%.1fs)" % (name, r.distinct, r.wall))
    rows = [json.loads(line) for line in open(vol_file) if line.strip()]
    rows.sort(key=lambda o: json.dumps([o["G"], o["dim"], o["per"], o["gens"]]))      # a pure re-ordering: the arithmetic is TLC's
    srt = os.path.join(OUT, "%s_vol.ndjson" % tag)
    with open(srt, "w") as f:
        for o in rows:
            f.write(json.dumps(o) + "\n")
    cfg = os.path.join(OUT, "tlc", "vtiletrace.cfg")
    write_cfg(cfg, spec="TSpec", invariants=["Consumed"], postcondition="TraceAccepted")
    r = run_tlc("trace/VTileTrace.tla", cfg, workers=1, dfs=True, env_extra={"VV_TRACE": srt}, tags=("VERDICT",), timeout=3000, xmx="6g")
    if r.violation or not r.ok:
        raise ToolError("VTileTrace could not consume the volume lines: %s\n%s" % (r.violation or r.error, r.raw_tail[-2000:]))
    groups = [v for _, v in r.cases]
    bad = [g for g in groups if g["failed"]]
    if bad:
        raise ToolError("VTileTrace: the exact cells of the specification do not tile the box: %s" % json.dumps(bad[0])[:600])
    out.coverage.setdefault("models", {})["VTileTrace"] = dict(inputs=len(groups), cell_lines=len(rows),
                                                               primes_min=min([g["primes"] for g in groups] or [0]))
    log("VTileTrace: %d inputs tile their box exactly (%d cell lines, >= %d primes each)" % (len(groups), len(rows), min([g["primes"] for g in groups] or [0])))
    return len(groups)


def check_C02(tier, seed):
    out = generic_lattice_check(
        "C02", tier, seed,
        ["R3s", "P3a", "P3b", "P2a", "D2a", "D1a", "D1p"],
        ["R3a", "R3x", "R3y", "P3a", "P3c", "P3x", "P2a", "P2x", "P2b", "D2a", "D2x", "D1a", "D1p"],
        dict(count=40, dims=(1, 2, 3)), dict(count=600, dims=(1, 2, 3)),
        {"C02"}, set(),
        "every embedded lattice tessellation (1D/2D/3D, periodic and reflective, anisotropic boxes, offsets up to 1e6, "
        "scales 1e-6..2e14): every cell measure > 0 and the sum equals the box measure; distinct = (input, embedding, cell) "
        "triples compared, all of them non-trivial (a wrong cell changes the sum)", with_tess=True)
    ng = measure_model(out, tier, seed, ["R3s", "P3a", ("P2s", dict(FAMILIES["P2a"], nmax=2)), ("D2s", dict(FAMILIES["D2a"], nmax=2)), "D1a", "D1p"]
                       if tier == "quick" else ["R3a", "R3x", "P3a", "P3b", "P2a", "P2x", "D2a", "D2x", "D1a", "D1p"], 8 if tier == "quick" else 120, "C02")
    out.coverage["rule"] += (" || design level (VMeasure + VTileTrace): the EXACT volumes of the cells the specification builds (rational, "
                             "evaluated by TLC modulo three primes) sum to the measure of the box for each of %d lattice inputs, and "
                             "do not depend on the order in which equidistant candidates are taken" % ng)
    return out.finish()


def check_C04(tier, seed):
    out = generic_lattice_check(
        "C04", tier, seed,
        ["R3s", "P3a", "P2a", "D2a", "D1a"],
        ["R3a", "R3x", "P3a", "P3b", "P3x", "P2a", "P2x", "D2a", "D2x", "D1a", "D1p"],
        dict(count=40, dims=(1, 2, 3)), dict(count=600, dims=(1, 2, 3)),
        {"C04"}, set(),
        "every face of every cell of every embedded lattice tessellation: unit normal away from the left generator "
        "(outward through the wall for boundary faces), plane normal = spec normal, centroid on the bisector, closure and "
        "divergence identities per cell; distinct = (input, embedding, cell) triples", with_tess=True)
    measure_model(out, tier, seed, ["R3s", "D1p"] if tier == "quick" else ["R3a", "P3a", "P2a", "D2a", "D1a", "D1p"], 4 if tier == "quick" else 60, "C04")
    out.coverage["rule"] += (" || design level (VMeasure.MeasureOK): on every finished cell of the specification the area vectors of all faces cancel "
                             "EXACTLY (closed surface) and every face pyramid has volume area x height / 3 with the height measured along the "
                             "inward normal (orientation of the faces = counter-clockwise about the inward normal)")
    return out.finish()


def check_C05(tier, seed):
    # both build profiles: debug_assert! is part of the statement ("in debug and release builds")
    out = generic_lattice_check(
        "C05", tier, seed,
        ["R3s", "P3a", "P2a", "D1a"],
        ["R3a", "R3x", "R3y", "P3a", "P3b", "P3x", "P2a", "P2x", "D2a", "D2x", "D1a", "D1p"],
        dict(count=40, dims=(3, 3, 2)), dict(count=600, dims=(1, 2, 3)),
        {"C05", "C01", "C02", "C03", "C04"}, {"C05"},
        "lattice inputs are exactly the degenerate families (points on box faces/edges/corners, collinear, coplanar, "
        "co-spherical, exact lattices, clusters); every one must build without panic in release AND dev profile, return "
        "finite values and pass the C01-C04 comparisons; distinct = (input, embedding, cell) triples; non-vacuity: "
        "harness.runs_with_exact counts runs in which the exact predicate was consulted",
        profiles=("release", "dev"), with_tess=True)
    # totality at design level: under weak fairness the cell machine always reaches pc = "done" (liveness, checked without VIEW
    # or state constraint on small families)
    for name, spec in (("D1p", FAMILIES["D1p"]), ("R3s", dict(FAMILIES["R3s"], order="fixed"))) + ((("P2a", dict(FAMILIES["P2a"], order="fixed", nmax=2)),) if tier == "thorough" else ()):
        cfg = os.path.join(OUT, "tlc", "vcell_live_%s.cfg" % name)
        consts = dict(Inputs=("<-", "MCInputs"), Ties="keep", Order=spec["order"], LGx=spec["G"][0], LGy=spec["G"][1], LGz=spec["G"][2], LDim=spec["dim"],
                      LPer=spec["per"], LNmin=spec["nmin"], LNmax=spec["nmax"], LFix=spec["fix"], UseFile=False, Emit=False)
        write_cfg(cfg, spec="LiveSpec", constants=consts, invariants=["TypeOK"], properties=["Terminates"])
        r = run_tlc("mc/MCVCell.tla", cfg, env_extra={"VV_INPUTS": "/dev/null"}, timeout=1800)
        if r.violation or not r.ok:
            raise ToolError("VCell does not terminate in the model itself (%s): %s\n%s" % (name, r.violation or r.error, r.raw_tail[-1500:]))
        out.coverage.setdefault("models", {})["VCell.Terminates/" + name] = dict(states=r.distinct, wall=round(r.wall, 1))
        log("VCell liveness (Terminates) %s: %d states (%.1fs)" % (name, r.distinct, r.wall))
    # isolated near-ties: "a vertex is removed iff the integer oracle says inside" - the exact predicate (the tie breaker of every
    # clip decision) replayed on TLC's vectors, incl. co-spherical +-1 cases on the 52-bit grid, in both profiles
    cases_file = pred_cases(out, tier, "C05")
    for profile in ("release", "dev"):
        binp = build_harness(profile=profile)
        res_file = os.path.join(OUT, "C05_pred_%s.json" % profile)
        run_harness(binp, ["pred", "--cases", cases_file, "--out", res_file, "--seed", str(seed)])
        res = json.load(open(res_file))
        log("pred replay for C05 (%s): %s" % (profile, res["stats"]))
        for f in res["failures"]:
            out.violation("tie breaker: %s [%s profile] detail=%s" % (f["what"], profile, json.dumps(f["detail"])[:300]), f)
        out.coverage.setdefault("tie_breaker_replay", {})[profile] = res["stats"]
    return out.finish()


def check_C06(tier, seed):
    out = generic_lattice_check(
        "C06", tier, seed,
        ["P3a", "P3b", "P3z", "P3w", "P2a", "P2x", "D1p"],
        ["P3a", "P3c", "P3x", "P3z", "P3w", "P2a", "P2x", "P2b", "D1p"],
        dict(count=40, dims=(1, 2, 3), pers=(True,)), dict(count=600, dims=(1, 2, 3), pers=(True,)),
        {"C06", "C01"}, set(),
        "periodic lattice inputs incl. n = 1, 2 (self-neighbours), all dimensionalities, anisotropic periods: cells equal the "
        "region defined with all 3^d images (TLC), equal the central block of the real non-periodic build of the replicated "
        "set, shifts are bitwise k*width and absent iff zero, no wall faces on periodic axes, invariant under translation")
    return out.finish()


def check_C08(tier, seed):
    out = generic_lattice_check(
        "C08", tier, seed,
        ["D2a", "P2a", "D1a", "D1p"],
        ["D2a", "D2x", "P2a", "P2x", "P2b", "D1a", "D1p"],
        dict(count=40, dims=(1, 2)), dict(count=500, dims=(1, 2)),
        {"C08", "C01", "C02"}, set(),
        "1D/2D lattice inputs: results compared with the prism/slab cell TLC computes (measures are lengths/areas), and "
        "runs with junk (huge, negative, zero, -0.0) in the unused components of generators, anchor and width must be "
        "bitwise equal (token) to the clean run; no face normal leaves the active subspace")
    return out.finish()


def check_C16(tier, seed):
    out = generic_lattice_check(
        "C16", tier, seed,
        ["R3s", "P3a", "P2a", "D2a", "D1a"],
        ["R3a", "R3x", "R3y", "P3a", "P3b", "P2a", "P2x", "D2a", "D1a", "D1p"],
        dict(count=50, dims=(1, 2, 3)), dict(count=800, dims=(1, 2, 3)),
        {"C16"}, {"C16"},
        "safety radius of every replayed cell >= 2 * exact distance (active subspace) to the farthest point TLC computed "
        "and >= distance to every neighbour with a face; every recorded termination validated by VCellTrace (a builder "
        "that stops while a vertex is farther than half the distance to the next candidate is rejected)",
        trace_cells=2000, with_tess=True, extra_invs=("FarIrrelevant",))
    return out.finish()



# ----------------------------------------------------------------------------------------------
# M-tess: assembly machine (C03 C07 C12 C13 C09)
# ----------------------------------------------------------------------------------------------
VTESS_INVS = ["Deterministic", "PrefixSums", "InvListedByLeft", "InvListedByRight", "InvListedByNoOther",
              "InvNoUnselectedLeft", "InvStoredAtMostOnce", "InvStoredOnce", "InvNeighbourIds", "InvReciprocalInput",
              "SymIsNonSymMinusTreated", "SymEqualsStored"]


def run_mcvtess(name, N, T, K, mode, hasmask=True, walls_fixed=True, collect="indexed", timeout=6000):
    cfg = os.path.join(OUT, "tlc", "vtess_%s.cfg" % name)
    write_cfg(cfg, constants=dict(N=N, T=T, K=K, InputMode=mode, CollectMode=collect, HasMask=hasmask, WallsFixed=walls_fixed),
              invariants=VTESS_INVS, properties=["SharedImmutable", "SlotOwnership"])
    r = run_tlc("mc/MCVTess.tla", cfg, timeout=timeout, coverage=False)
    return r


def vtess_model(out, tier):
    """Model-check the assembly machine: all schedules of T workers, all masks, reciprocal and arbitrary inputs."""
    runs = [("rec3", 3, 2, 1, "reciprocal", True, True), ("arb2", 2, 2, 2, "arbitrary", True, True),
            ("rec3nomask", 3, 3, 1, "reciprocal", False, True)]
    if tier == "thorough":
        runs += [("rec3w", 3, 3, 1, "reciprocal", True, False), ("arb3", 3, 2, 1, "arbitrary", True, True),
                 ("rec4", 4, 2, 1, "reciprocal", False, True)]
    cov = out.coverage
    for (name, N, T, K, mode, hm, wf) in runs:
        r = run_mcvtess(name, N, T, K, mode, hasmask=hm, walls_fixed=wf)
        if r.violation:
            raise ToolError("VTess model violates its own invariant (%s): %s\n%s" % (name, r.violation, r.raw_tail[-2500:]))
        cov["states"] = cov.get("states", 0) + r.distinct
        cov["transitions"] = cov.get("transitions", 0) + r.states
        cov.setdefault("models", {})[name] = dict(N=N, T=T, K=K, inputs=mode, hasmask=hm, states=r.distinct,
                                                  transitions=r.states, wall=round(r.wall, 1))
        log("VTess model %s: %d distinct states (%.1fs)" % (name, r.distinct, r.wall))


def tess_pipeline(tier, seed, tag, count=None, nmax=None, closepairs=0):
    ensure_dirs()
    binp = build_harness()
    res_file = os.path.join(OUT, "%s_tess_result.json" % tag)
    trace_file = os.path.join(OUT, "%s_tess_trace.ndjson" % tag)
    count = count or (40 if tier == "quick" else 400)
    nmax = nmax or (24 if tier == "quick" else 40)
    t0 = time.time()
    run_harness(binp, ["tess", "--out", res_file, "--trace", trace_file, "--tier", tier, "--seed", str(seed),
                       "--count", str(count), "--nmax", str(nmax), "--closepairs", str(closepairs)] + (["--extra-onwall"] if tag == "C13" else []))
    res = json.load(open(res_file))
    log("tess recorder: %s (%.1fs)" % (res["stats"], time.time() - t0))
    cfg = os.path.join(OUT, "tlc", "vtesstrace.cfg")
    write_cfg(cfg, spec="TSpec", invariants=["Consumed"], postcondition="TraceAccepted")
    r = run_tlc("trace/VTessTrace.tla", cfg, workers=1, dfs=True, env_extra={"VV_TRACE": trace_file},
                tags=("VERDICT",), timeout=3000, xmx="8g")
    if r.violation or not r.ok:
        raise ToolError("VTessTrace could not consume the trace: %s\n%s" % (r.violation or r.error, r.raw_tail[-2000:]))
    verdicts = [v for _, v in r.cases]
    log("VTessTrace: %d lines validated in %.1fs" % (len(verdicts), r.wall))
    return res, verdicts, trace_file


F11_SITES = ("No suitable vertex found to extend boundary!", "Degenerate 3-plane intersection!")


def is_F14(inp, message):
    """Signature of known finding F14: the harness family `cosphere` - 200..400 generators on a common sphere (Fibonacci lattice of
    constant radius), with or without a generator at the centre; a panic must come from one of the two sites guarding broken topology."""
    if inp.get("kind") != "cosphere":
        return False
    return message is None or any(sx in message for sx in F11_SITES)


def is_F11(inp, message):
    """Signature of known finding F11: two generators closer than 1e-7 of the box scale, or three generators mutually closer than 1e-4
    of it (active subspace, nearest image); a panic must come from one of the two sites guarding broken topology."""
    if not (inp.get("minsep", 1.0) < 1e-7 or inp.get("trisep", 1.0) < 1e-4):
        return False
    return message is None or any(sx in message for sx in F11_SITES)


def apply_tess(out, res, verdicts, trace_file, prop):
    tagp = "[%s" % prop
    lines_ok = 0
    bad_lines = {}
    close_ids = {m["id"] for m in res.get("inputs_meta", []) if m["minsep"] < 1e-7 or m.get("trisep", 1.0) < 1e-4}
    cosph_ids = {m["id"] for m in res.get("inputs_meta", []) if m.get("kind") == "cosphere"}
    for v in verdicts:
        mine = [x for x in v["failed"] if prop in x[x.rfind("["):]]
        if not v["failed"]:
            lines_ok += 1
        if v["id"] in close_ids or v["id"] in cosph_ids:
            # F11 / F14 territory: what the library returns there is attributed to the finding
            if v["failed"] and prop == "C05":
                out.known_hit("F14" if v["id"] in cosph_ids else "F11", {"trace_line": v["line"], "input_id": v["id"], "failed": v["failed"]})
            continue
        for x in mine:
            bad_lines.setdefault(x, []).append(v["line"])
    if bad_lines:
        # fetch the offending trace lines for the replay file
        wanted = {ls[0] for ls in bad_lines.values()}
        recs = {}
        with open(trace_file) as f:
            for k, line in enumerate(f, 1):
                if k in wanted:
                    recs[k] = json.loads(line)
        for x, ls in bad_lines.items():
            out.violation("VTessTrace rejected %d recorded run(s): %s" % (len(ls), x), {"trace_line": recs.get(ls[0]), "lines": ls[:20]})
    f11_ids = set()
    for f in res["failures"]:
        if f["prop"] == prop or (prop == "C05" and f["prop"] in ("C01", "C02", "C03", "C04")):
            if is_F11(f["input"], None) or is_F14(f["input"], None):
                out.known_hit("F14" if is_F14(f["input"], None) else "F11", f)
                f11_ids.add(f["input"]["id"])
                continue
            if f["prop"] != prop:
                continue
            out.violation("%s [%s] input kind=%s n=%d mask=%s detail=%s" % (f["what"], f["prop"], f["input"]["kind"], len(f["input"]["gens"]),
                                                                  json.dumps(f["mask"])[:80], json.dumps(f["detail"])[:300]), f)
    for p in res["panics"]:
        if prop == "C05":
            if is_F11(p["input"], p["message"]) or is_F14(p["input"], p["message"]):
                out.known_hit("F14" if is_F14(p["input"], p["message"]) else "F11", p)
                f11_ids.add(p["input"]["id"])
                continue
            out.violation("panic on a valid general-position input: %s" % p["message"], p)
    cov_f11 = sorted(f11_ids)
    out.coverage["inputs_in_F11_territory_that_failed"] = len(cov_f11)
    cov = out.coverage
    cov["traces_validated_against_impl"] = cov.get("traces_validated_against_impl", 0) + lines_ok
    cov["evaluations"] = cov.get("evaluations", 0) + res["stats"]["lines"]
    cov["distinct_nontrivial"] = cov.get("distinct_nontrivial", 0) + res["stats"]["lines"]
    cov.setdefault("samples", [])
    cov["samples"] += res["samples"][:2]
    cov["tess_stats"] = res["stats"]
    cov["trace_lines_rejected_any_property"] = sum(1 for v in verdicts if v["failed"])
    cov["panics_in_recorder"] = len(res["panics"])


TESS_RULE = ("seeded float inputs (uniform, clustered 1e-4..1e-1, near-lattice 1e-9..1e-6, exactly snapping lattices, tiny "
             "periodic sets with self-neighbours, anisotropic boxes, offsets 1e4; 1D/2D/3D; periodic and reflective) x masks "
             "(none, all-true, all-false, singles, random densities, halves; all 2^n for n <= 4); one trace line per (input, mask); "
             "distinct = trace lines, each non-trivial (re-executed by TLC on the recorded plane lists)")
TESS_ASSUME = [
    "TLC evaluates VTess/VTessTrace correctly; the Json module deserialises the trace faithfully",
    "the harness projects the public API state (plane lists, faces, connectivity) without error (tess.rs)",
    "quantisation unit 2^-26 of the box scale; relational slack 2 units (+1e-6 relative for areas)",
]


def generic_tess_check(prop, tier, seed, rule_extra=""):
    out = Outcome(prop, tier, seed)
    vtess_model(out, tier)
    res, verdicts, trace_file = tess_pipeline(tier, seed, prop)
    apply_tess(out, res, verdicts, trace_file, prop)
    out.coverage["rule"] = TESS_RULE + rule_extra
    out.assumptions = TESS_ASSUME
    return out


def check_C03(tier, seed):
    out = generic_tess_check("C03", tier, seed, "; reciprocity checked by TLC on quantised areas/centroids/normals of both sides "
                             "and numerically at the 1e-9 threshold in the harness; antisymmetric flux over all cells")
    ng = measure_model(out, tier, seed, ["R3s", "P3a", ("P2s", dict(FAMILIES["P2a"], nmax=2)), "D1p"] if tier == "quick" else
                       ["R3a", "P3a", "P3b", "P2a", "P2x", "D2a", "D1a", "D1p"], 6 if tier == "quick" else 80, "C03")
    out.coverage["rule"] += (" || design level (VMeasure + VTileTrace.RecipFails): for each of %d lattice inputs (periodic ones with faces towards "
                             "the cell's own images included) every face of positive area of every cell the specification builds has a mirror "
                             "face in the neighbouring cell with the opposite EXACT area vector and the same EXACT centroid" % ng)
    return out.finish()


def check_C07(tier, seed):
    return generic_tess_check("C07", tier, seed, "; every masked run compared (bit tokens) with the full run of the same input").finish()


def check_C12(tier, seed):
    return generic_tess_check("C12", tier, seed, "; connectivity, offsets, counts, face_indices, neighbour_ids re-executed for both routes").finish()


def check_C13(tier, seed):
    out = generic_tess_check("C13", tier, seed, "; dump tokens of the two routes, integral lists vs stored values")
    session_pipeline(out, tier, seed, 10 if tier == "quick" else 30, 4)
    return out.finish()


def check_C09(tier, seed):
    out = Outcome("C09", tier, seed)
    # design level: every interleaving of T workers over N cells ends in the one final state
    runs = [("par3x3", 3, 3, 1, "reciprocal", True, True), ("ring5x3", 5, 3, 1, "ring", True, True)]
    if tier == "thorough":
        runs += [("ring6x3", 6, 3, 1, "ring", True, True), ("ring5x4", 5, 4, 1, "ring", True, True), ("par3x3arb", 3, 3, 1, "arbitrary", True, True)]
    for (name, N, T, K, mode, hm, wf) in runs:
        r = run_mcvtess(name, N, T, K, mode, hasmask=hm, walls_fixed=wf)
        if r.violation:
            raise ToolError("VTess model violates its own invariant (%s): %s" % (name, r.violation))
        out.coverage["states"] = out.coverage.get("states", 0) + r.distinct
        out.coverage["transitions"] = out.coverage.get("transitions", 0) + r.states
        out.coverage.setdefault("models", {})[name] = dict(N=N, T=T, states=r.distinct, transitions=r.states, wall=round(r.wall, 1))
        log("VTess parallel model %s: %d distinct states (%.1fs)" % (name, r.distinct, r.wall))
    # implementation: sequential (no rayon) reference vs rayon pools with jitter
    seqbin = build_harness(features=["ibig"])
    parbin = build_harness()
    ref = os.path.join(OUT, "C09_ref.ndjson")
    par = os.path.join(OUT, "C09_par.ndjson")
    count = 10 if tier == "quick" else 60
    reps = 2 if tier == "quick" else 4
    common = ["--seed", str(seed), "--count", str(count), "--nmax", "60" if tier == "quick" else "150", "--big"]
    run_harness(seqbin, ["sched", "--mode", "seq", "--out", ref] + common)
    t0 = time.time()
    run_harness(parbin, ["sched", "--mode", "par", "--out", par, "--reps", str(reps)] + common, timeout=7200)
    log("sched recorder: %.1fs" % (time.time() - t0))
    trace = os.path.join(OUT, "C09_trace.ndjson")
    orders = {}
    nruns = 0
    with open(trace, "w") as f:
        for p in (ref, par):
            for line in open(p):
                f.write(line)
                o = json.loads(line)
                if o["e"] == "run":
                    nruns += 1
                    if o["traced"]:
                        ends = tuple(t[1] for t in o["tasks"] if t[0] == "e")
                        orders.setdefault(o["key"], set()).add(ends)
    cfg = os.path.join(OUT, "tlc", "vpartrace.cfg")
    write_cfg(cfg, spec="TSpec", invariants=["Consumed"], postcondition="TraceAccepted")
    r = run_tlc("trace/VParTrace.tla", cfg, workers=1, dfs=True, env_extra={"VV_TRACE": trace}, tags=("VERDICT",), timeout=3000)
    if r.violation or not r.ok:
        raise ToolError("VParTrace could not consume the trace: %s\n%s" % (r.violation or r.error, r.raw_tail[-2000:]))
    okruns = 0
    lines = open(trace).read().splitlines()
    for _, v in r.cases:
        if v["verdict"] == "ok":
            okruns += (v["e"] == "run")
            continue
        if v["verdict"] == "sequential reference panicked":
            continue       # a panic is C05's business; the run lines must then panic as well
        rec = json.loads(lines[v["line"] - 1])
        rec["tasks"] = rec.get("tasks", [])[:50]
        out.violation("%s (input/mask %s, %s threads)" % (v["verdict"], v["key"], rec.get("threads")), rec)
    distinct_orders = sum(len(s) for s in orders.values())
    out.coverage.update({
        "traces_validated_against_impl": okruns,
        "evaluations": nruns,
        "distinct_nontrivial": distinct_orders,
        "rule": "runs = (input, mask) x thread pools {1,2,3,4,8,16,64} x repetitions with seeded jitter at the scheduling hook; "
                "distinct_nontrivial = number of DISTINCT completion orders observed over all traced runs (a run is non-trivial "
                "when its completion order differs from another run of the same input); each run's token (cells, faces in order, "
                "connectivity of both routes, all integral vectors incl. _with_data and with_faces) must equal the token of the "
                "sequential no-rayon build; one 9000-cell periodic input (> 65536 faces) included",
        "samples": [{"key": k, "distinct_completion_orders": len(v), "example": list(next(iter(v)))[:20]} for k, v in list(orders.items())[:3]],
    })
    out.assumptions = ["schedules are sampled (pool sizes x jitter seeds), not enumerated, on the implementation side; the exhaustive part "
                       "is the TLA+ model of the parallel fragment", "TLC evaluates VParTrace correctly"]
    # repeated runs in one process: every (input, mask) of the tess recorder is built twice and must give bitwise the same result
    res, verdicts, trace_file = tess_pipeline(tier, seed, "C09")
    apply_tess(out, res, verdicts, trace_file, "C09")
    out.coverage["rule"] += "; every (input, mask) of the tess recorder built twice in a row: bitwise equal"
    okr = out.coverage.get("traces_validated_against_impl", 0)
    session_pipeline(out, tier, seed, 5 if tier == "quick" else 16, 4)
    out.coverage["traces_validated_against_impl"] = max(okr, out.coverage.get("traces_validated_against_impl", 0))
    return out.finish()


# ----------------------------------------------------------------------------------------------
# M-nn: candidate stream (C17)
# ----------------------------------------------------------------------------------------------
def nn_cases(seed, tier):
    """Lattice inputs for the candidate stream: full lattices (many equidistant points), random subsets, clusters,
    1D/2D/3D, cubic and anisotropic periods, small (all queries, full stream) and large (sampled queries, prefix)."""
    rng = random.Random(seed * 31 + 5)
    cases = []
    embs = [dict(h=1.0, o=[0.0, 0.0, 0.0]), dict(h=0.1, o=[-17.25, 3.5, 0.7]), dict(h=7.3, o=[1000.0, -1000.0, 250.0]),
            dict(h=64.0, o=[0.0, 0.0, 0.0]), dict(h=1e-3, o=[5.0, 5.0, 5.0]),
            # far from unit scale (the search is scale free; absolute thresholds only show here)
            dict(h=2.0 ** -40, o=[0.0, 0.0, 0.0]), dict(h=1e-9, o=[0.0, 0.0, 0.0]), dict(h=2.0 ** 30, o=[0.0, 0.0, 0.0])]

    def add(G, dim, per, gens, queries, limit, emb):
        cases.append({"id": len(cases), "G": list(G), "dim": dim, "per": per, "gens": [list(g) for g in gens],
                      "queries": queries, "limit": limit, "emb": emb})

    small = 24 if tier == "quick" else 120
    for k in range(small):
        dim = [3, 2, 1, 3][k % 4]
        per = (k // 4) % 2 == 0
        aniso = (k % 3 == 0)
        if aniso:
            G = [rng.choice([2, 3, 5, 8]), rng.choice([2, 3, 5, 8]), rng.choice([2, 3, 5, 8])]
        else:
            g = rng.randint(2, 6)
            G = [g, g, g]
        for a in range(dim, 3):
            G[a] = 1
        pts = lattice_points(G, dim, per)
        kind = k % 3
        if kind == 0 and len(pts) <= 80:
            sel = pts                                        # full lattice
        elif kind == 1:
            sel = rng.sample(pts, min(len(pts), rng.randint(1, 30)))
        else:
            c = rng.choice(pts)
            near = [p for p in pts if max(abs(p[a] - c[a]) for a in range(3)) <= 1]
            sel = list(set(rng.sample(near, min(len(near), 6)) + rng.sample(pts, min(len(pts), 5))))
        sel = sorted(set(sel))
        emb = dict(embs[k % len(embs)])
        if dim < 3 and k % 2 == 0:
            emb["junk"] = True
        nq = len(sel) if len(sel) <= 12 else 6
        queries = sorted(rng.sample(range(len(sel)), nq))
        add(G, dim, per, sel, queries, 100000, emb)
    # "general position" inputs: random points of a fine lattice (G = 256..2048 per axis: hardly any equidistant pair, yet every
    # squared distance is an integer below 2^31 that TLC recomputes exactly), uniform and clustered, anisotropic periods
    fine = 8 if tier == "quick" else 60
    for k in range(fine):
        dim = [3, 3, 2, 1][k % 4]
        per = k % 2 == 0
        gsz = [rng.choice([256, 512, 1024, 2048]) for _ in range(3)]
        if k % 3 != 0:
            gsz = [gsz[0]] * 3
        if per:
            gsz = [min(g, 1024) for g in gsz]          # differences reach 2G when periodic
        for a in range(dim, 3):
            gsz[a] = 1
        n = rng.randint(20, 120 if tier == "quick" else 300)
        pts = set()
        if k % 4 in (0, 3):
            while len(pts) < n:
                pts.add(tuple(rng.randrange(gsz[a]) if a < dim else 0 for a in range(3)))
        else:
            cs = [tuple(rng.randrange(gsz[a]) if a < dim else 0 for a in range(3)) for _ in range(rng.randint(1, 4))]
            while len(pts) < n:
                c = rng.choice(cs)
                r = rng.choice([3, 8, 40])
                p = tuple(min(gsz[a] - 1, max(0, c[a] + rng.randint(-r, r))) if a < dim else 0 for a in range(3))
                pts.add(p)
        sel = sorted(pts)
        queries = sorted(rng.sample(range(len(sel)), 5))
        emb = dict(h=[2.0 ** -10, 1e-3, 1.0, 0.37, 2.0 ** -50][k % 5], o=[[0.0, 0.0, 0.0], [-17.25, 3.5, 0.7]][k % 2] if k % 5 != 4 else [0.0, 0.0, 0.0])
        add(gsz, dim, per, sel, queries, 100000, emb)
    # large inputs: 10^3 (quick) .. 10^4 (thorough) lattice points, the prefix the builder consumes
    big = [(9, 3, True), (9, 3, False), (31, 2, True)] if tier == "quick" else [(9, 3, True), (9, 3, False), (21, 3, True), (21, 3, False), (99, 2, True), (999, 1, True)]
    for (g, dim, per) in big:
        G = [g + (1 if per else 0)] * 3
        for a in range(dim, 3):
            G[a] = 1
        pts = lattice_points(G, dim, per)
        if rng.random() < 0.5:
            pts = rng.sample(pts, int(len(pts) * 0.7))
        pts = sorted(pts)
        queries = sorted(rng.sample(range(len(pts)), 4 if tier == "quick" else 10))
        add(G, dim, per, pts, queries, 600 if tier == "quick" else 2000, dict(embs[len(cases) % len(embs)]))
    return cases


def check_C17(tier, seed):
    out = Outcome("C17", tier, seed)
    ensure_dirs()
    # design level: best-first traversal of every small tree over every small point set, all pop orders among equal keys
    sets = [("square", 2, True), ("line4", 1, True), ("skew", 2, True), ("cube5", 3, False)]
    if tier == "thorough":
        # (3D periodic: 27 copies of every point with many equal keys - two points are 1.8M distinct states, 5 min)
        sets += [("lshape", 2, True), ("cube2", 3, True), ("cube4", 3, False), ("square", 2, False)]
    for (ps, dim, per) in sets:
        for qi in ([1] if tier == "quick" or ps == "cube2" else [1, 2]):
            cfg = os.path.join(OUT, "tlc", "vnn_%s_%d.cfg" % (ps, qi))
            write_cfg(cfg, constants=dict(Points=("<-", "MCPoints"), QI=qi, GW=("<-", "MCGW"), Dim=dim, Per=per,
                                          Trees=("<-", "MCTrees"), KeyMode="clamp", PSet=ps),
                      invariants=["LowerBound", "Sorted", "NoDup", "SelfFirst", "PrefixOfAll", "Complete", "DistanceRight"],
                      view="HeapView")
            r = run_tlc("mc/MCVNN.tla", cfg, timeout=1500)
            if r.violation:
                raise ToolError("VNN model violates its own invariant (%s): %s" % (ps, r.violation))
            out.coverage["states"] = out.coverage.get("states", 0) + r.distinct
            out.coverage["transitions"] = out.coverage.get("transitions", 0) + r.states
            out.coverage.setdefault("models", {})["%s/q%d" % (ps, qi)] = dict(states=r.distinct, wall=round(r.wall, 1))
            log("VNN model %s q%d: %d states (%.1fs)" % (ps, qi, r.distinct, r.wall))
    # implementation, first route: the candidate stream as the BUILDER consumes it (Visit / Terminate events of real builds of
    # periodic and reflective lattice inputs, generators on lower and upper walls included), validated step by step by VCellTrace:
    # every candidate taken is a nearest unvisited one, none twice
    run = lattice_pipeline(["P2a", "D1p"] if tier == "quick" else ["P3a", "P2a", "P2x", "D2a", "D1a", "D1p"], tier, seed,
                           sim=dict(count=16 if tier == "quick" else 200, dims=(1, 2, 3), pers=(True, True, False)), tag="C17_L",
                           own_tags={"C17"}, trace_cells=1500)
    apply_lattice(out, run, {"C17"}, {"C17"})
    # second route: recorded streams of the search itself validated by VNNTrace
    cases = nn_cases(seed, tier)
    cf = os.path.join(OUT, "C17_cases.ndjson")
    with open(cf, "w") as f:
        for c in cases:
            f.write(json.dumps(c) + "\n")
    binp = build_harness()
    tf = os.path.join(OUT, "C17_trace.ndjson")
    run_harness(binp, ["nn", "--cases", cf, "--trace", tf])
    cfg = os.path.join(OUT, "tlc", "vnntrace.cfg")
    write_cfg(cfg, spec="TSpec", invariants=["Consumed"], postcondition="TraceAccepted")
    r = run_tlc("trace/VNNTrace.tla", cfg, workers=1, dfs=True, env_extra={"VV_TRACE": tf}, tags=("VERDICT",), timeout=3000, xmx="8g")
    if r.violation or not r.ok:
        raise ToolError("VNNTrace could not consume the trace: %s\n%s" % (r.violation or r.error, r.raw_tail[-2000:]))
    lines = open(tf).read().splitlines()
    ok = 0
    entries = 0
    for _, v in r.cases:
        entries += v["m"]
        if not v["failed"]:
            ok += 1
            continue
        rec = json.loads(lines[v["line"] - 1])
        rec["seq"] = rec["seq"][:60]
        case = cases[rec["id"]]
        for x in v["failed"]:
            out.violation("%s (query %d of input %d: G=%s dim=%d per=%s n=%d)" % (x, v["qi"], rec["id"], rec["G"], rec["dim"], rec["per"], len(rec["gens"])),
                          {"trace_line": rec, "embedding": case["emb"]})
    out.coverage.update({
        "traces_validated_against_impl": ok + out.coverage.get("traces_validated_against_impl", 0),
        "evaluations": len(r.cases) + out.coverage.get("evaluations", 0),
        "distinct_nontrivial": len(r.cases),
        "stream_entries_checked": entries,
        "rule": "builder route: Visit / Terminate events of real builds of lattice inputs (periodic ones with generators on lower and upper "
                "walls) validated by VCellTrace (nearest unvisited candidate at every step, none twice) || search route: one stream per (lattice input, query generator, embedding); full streams (n*3^d entries) for inputs up to ~80 points, "
                "prefixes of 600/2000 entries for 10^3..10^4 points; every squared distance recomputed exactly by TLC; distinct = streams",
        "samples": [{k: (v if k != "gens" else v[:8]) for k, v in cases[0].items()}, {k: (v if k != "gens" else v[:8]) for k, v in cases[-1].items()}],
    })
    out.assumptions = ["lattice inputs only on the implementation side (distances are exact integers for TLC); float rounding cannot reorder "
                       "distinct integer squared distances", "TLC evaluates VNN / VNNTrace correctly"]
    return out.finish()


# ----------------------------------------------------------------------------------------------
# C18: clipping independent of storage order (VCycle + VCellImpl)
# ----------------------------------------------------------------------------------------------
def check_C18(tier, seed):
    out = Outcome("C18", tier, seed)
    ensure_dirs()
    fams = [("R3s", FAMILIES["R3s"], 6, 3), ("D2s", fam((3, 3, 1), 2, False, 1, 2, order="fixed"), 5, 2),
            ("P2s", fam((3, 3, 1), 2, True, 1, 2, order="fixed"), 5, 2)]
    if tier == "thorough":
        # (R3a with every order of up to 7 removed vertices did not finish in 50 min on a loaded machine: 7 for n <= 2, 6 for n <= 3)
        fams = [("R3s", FAMILIES["R3s"], 7, 4), ("R3a", FAMILIES["R3a"], 6, 3), ("P3b", FAMILIES["P3b"], 7, 3), ("P2a", FAMILIES["P2a"], 7, 3),
                ("D2a", FAMILIES["D2a"], 7, 4)]
    cases_file = os.path.join(OUT, "C18_clipcases.ndjson")
    sim_inputs_file = None
    with open(cases_file, "w") as cf:
        for (name, spec, maxex, allrot) in fams:
            cfg = os.path.join(OUT, "tlc", "vcellimpl_%s.cfg" % name)
            consts = dict(Inputs=("<-", "MCInputs"), Ties="keep", Order="fixed",
                          LGx=spec["G"][0], LGy=spec["G"][1], LGz=spec["G"][2], LDim=spec["dim"], LPer=spec["per"],
                          LNmin=spec["nmin"], LNmax=spec["nmax"], LFix=spec["fix"], UseFile=False, Emit=True,
                          MaxExhaustive=maxex, AllRotUpTo=allrot)
            write_cfg(cfg, spec="ISpec", constants=consts,
                      invariants=["TypeOK", "NoDegenerate", "Closed", "Euler", "Oriented", "ImplOK", "CycleCapacity", "EmitClips"])
            r = run_tlc("mc/MCVCellImpl.tla", cfg, tag_sink={"CLIP": cf}, tags=("CLIP",), env_extra={"VV_INPUTS": "/dev/null"}, timeout=6000)
            if r.violation:
                raise ToolError("VCellImpl violates its own invariant (%s): %s\n%s" % (name, r.violation, r.raw_tail[-2500:]))
            out.coverage["states"] = out.coverage.get("states", 0) + r.distinct
            out.coverage["transitions"] = out.coverage.get("transitions", 0) + r.states
            out.coverage.setdefault("models", {})[name] = dict(states=r.distinct, wall=round(r.wall, 1), max_exhaustive=maxex, all_rotations_up_to=allrot)
            log("VCellImpl %s: %d states (%.1fs)" % (name, r.distinct, r.wall))
        # seeded larger lattice inputs: bigger removed sets
        inputs = sim_inputs(seed, 12 if tier == "quick" else 120, tier, dims=(3, 3, 2))
        sim_inputs_file = os.path.join(OUT, "C18_siminputs.ndjson")
        with open(sim_inputs_file, "w") as f:
            for i in inputs:
                f.write(json.dumps(i) + "\n")
        cfg = os.path.join(OUT, "tlc", "vcellimpl_sim.cfg")
        consts = dict(Inputs=("<-", "MCInputs"), Ties="keep", Order="fixed", LGx=1, LGy=1, LGz=1, LDim=3, LPer=False,
                      LNmin=1, LNmax=1, LFix=False, UseFile=True, Emit=True, MaxExhaustive=5, AllRotUpTo=2)
        write_cfg(cfg, spec="ISpec", constants=consts,
                  invariants=["TypeOK", "NoDegenerate", "Closed", "ImplOK", "CycleCapacity", "EmitClips"])
        r = run_tlc("mc/MCVCellImpl.tla", cfg, tag_sink={"CLIP": cf}, tags=("CLIP",), env_extra={"VV_INPUTS": sim_inputs_file}, timeout=3000)
        if r.violation:
            raise ToolError("VCellImpl violates its own invariant (sim): %s\n%s" % (r.violation, r.raw_tail[-2500:]))
        out.coverage["states"] += r.distinct
        out.coverage["transitions"] += r.states
        out.coverage["models"]["sim"] = dict(states=r.distinct, wall=round(r.wall, 1), inputs=len(inputs))
        log("VCellImpl sim: %d states (%.1fs)" % (r.distinct, r.wall))
    # SimpleCycle as an inductive step over EVERY well-formed cycle on NPl planes (not only reachable ones): try_extend keeps
    # well-formedness, glues exactly the triangle, refuses exactly the non-attachable ones; init clears every stale entry
    npl = 6 if tier == "quick" else 7
    cfgc = os.path.join(OUT, "tlc", "vcycleind.cfg")
    write_cfg(cfgc, constants=dict(NPl=npl), invariants=["StepWF", "StepEdges", "Refuses", "InitWF"])
    rc = run_tlc("mc/MCVCycleInd.tla", cfgc, timeout=3000)
    if rc.violation:
        raise ToolError("VCycle: the inductive step of SimpleCycle fails in the model: %s\n%s" % (rc.violation, rc.raw_tail[-2000:]))
    out.coverage["states"] += rc.distinct
    out.coverage["transitions"] += rc.states
    out.coverage["models"]["VCycle inductive (all cycles on %d planes x all triangles)" % npl] = dict(states=rc.distinct, wall=round(rc.wall, 1))
    log("VCycle inductive step, %d planes: %d (cycle, triangle) pairs (%.1fs)" % (npl, rc.distinct, rc.wall))
    # subsample the clip cases for replay (keep all with many removed vertices)
    lines = open(cases_file).read().splitlines()
    rng = random.Random(seed)
    big = [l for l in lines if json.loads(l)["nrem"] >= 3]
    small = [l for l in lines if json.loads(l)["nrem"] < 3]
    cap = 1500 if tier == "quick" else 12000
    rng.shuffle(big)
    rng.shuffle(small)
    keep = big[:cap] + small[:max(0, cap // 3)]
    sub = os.path.join(OUT, "C18_clipcases_sub.ndjson")
    open(sub, "w").write("\n".join(keep) + "\n")
    binp = build_harness()
    res_file = os.path.join(OUT, "C18_result.json")
    run_harness(binp, ["clip", "--cases", sub, "--out", res_file, "--seed", str(seed), "--perms", "10" if tier == "quick" else "24",
                       "--float-count", "16" if tier == "quick" else "120"], timeout=7200)
    res = json.load(open(res_file))
    log("clip replay: %s" % res["stats"])
    for f in res["failures"]:
        out.violation("%s detail=%s" % (f["what"], json.dumps(f["detail"])[:300]), f)
    st = res["stats"]
    out.coverage.update({
        "traces_validated_against_impl": st["clip_cases"] + st["library_cells"],
        "evaluations": st["variants"] + st["library_variants"],
        "distinct_nontrivial": st["cases_with_2plus_removed"] + st["library_cells"],
        "clip_cases_generated_by_tlc": len(lines),
        "replay": st,
        "rule": "TLC: every reachable cell x next cutting plane; all orders of the removed set up to MaxExhaustive (cyclic shifts of the "
                "sorted and reversed order above), all rotations of every triple up to AllRotUpTo (first triple above). Replay: each CLIP "
                "case under 10/24 permutations+rotations of the whole vertex array through verif::clip_cell in two embeddings; plus cells "
                "built by the library (up to ~90 planes, faces with ~30 edges) re-clipped through verif::clip_existing under permutations. "
                "distinct_nontrivial = CLIP cases with >= 2 removed vertices + library cells",
        "samples": res["samples"][:2] or [json.loads(lines[0])],
    })
    out.assumptions = ["TLC evaluates VCycle/VCellImpl correctly; the transcription of SimpleCycle/compute_boundary is line by line",
                       "with exact ties and inexact snapping the result may legitimately differ in which tied vertices are removed: "
                       "those variants are only required to be closed polytopes (known finding F2 territory)"]
    return out.finish()


# ----------------------------------------------------------------------------------------------
# C10 / C11: exact predicate, integer grid, backends
# ----------------------------------------------------------------------------------------------
def run_vpred(out, grid, emitmod, cases_file):
    cfg = os.path.join(OUT, "tlc", "vpred_%s.cfg" % grid)
    write_cfg(cfg, constants=dict(GridName=grid, EmitMod=emitmod, Emit=True),
              invariants=["CofactorIsDeterminant", "AgreesWithDefinition", "FirstOrderOK", "TranslationInvariant", "SimilarityInvariant", "EmitVec"])
    with open(cases_file, "a") as f:
        r = run_tlc("mc/MCVPred.tla", cfg, tag_sink={"PRED": f}, tags=("PRED",), timeout=3000)
    if r.violation:
        raise ToolError("VPred: the transcription of the predicate disagrees with its definition: %s\n%s" % (r.violation, r.raw_tail[-2500:]))
    out.coverage["states"] = out.coverage.get("states", 0) + r.distinct
    out.coverage["transitions"] = out.coverage.get("transitions", 0) + r.states
    out.coverage.setdefault("models", {})["VPred/" + grid] = dict(states=r.distinct, wall=round(r.wall, 1))
    log("VPred %s: %d states (%.1fs)" % (grid, r.distinct, r.wall))


def vpred_aniso_witness(out):
    """Non-vacuity of the similarity requirement on the grid map (finding F13): the model must REJECT invariance of the in-sphere sign
    under the scaling of one axis alone."""
    cfg = os.path.join(OUT, "tlc", "vpred_aniso.cfg")
    write_cfg(cfg, constants=dict(GridName="g13", EmitMod=1, Emit=False), invariants=["NoAnisoInvariance"])
    r = run_tlc("mc/MCVPred.tla", cfg, timeout=1200)
    if not r.violation:
        raise ToolError("VPred: the in-sphere sign came out invariant under an anisotropic scaling of the grid - the model is wrong")
    out.coverage.setdefault("models", {})["VPred/anisotropic scaling changes the sign (must fail)"] = dict(violated=True, states=r.distinct)


def pred_cases(out, tier, tag):
    ensure_dirs()
    cases_file = os.path.join(OUT, "%s_predcases.ndjson" % tag)
    open(cases_file, "w").close()
    if tier == "quick":
        run_vpred(out, "g13", 7, cases_file)
    else:
        run_vpred(out, "g13", 2, cases_file)
        run_vpred(out, "g17", 11, cases_file)
    return cases_file


def degenerate_lattice_inputs(seed, tier):
    """Inputs on which the exact path is consulted: exact lattices and sub-lattices, wall-hugging and planar sets."""
    inputs = sim_inputs(seed, 30 if tier == "quick" else 200, tier, dims=(3, 3, 2, 1))
    rng = random.Random(seed + 99)
    k = len(inputs)
    for (G, dim, per) in [((2, 2, 2), 3, False), ((3, 3, 3), 3, True), ((4, 4, 1), 2, False), ((3, 3, 1), 2, True), ((4, 2, 2), 3, False)]:
        pts = lattice_points(G, dim, per)
        inputs.append({"id": k + 1, "G": list(G), "dim": dim, "per": per, "gens": [list(p) for p in pts]})
        k += 1
    return inputs


def check_C10(tier, seed):
    out = Outcome("C10", tier, seed)
    cases_file = pred_cases(out, tier, "C10")
    ntuples = sum(1 for _ in open(cases_file))
    vpred_aniso_witness(out)
    # the builder always supplies positions inside the grid domain: VCell.QueriesInDomain on small families
    for name in (["R3s", "P3a", "P2a", "D1p"] if tier == "quick" else ["R3a", "P3a", "P3b", "P2a", "P2x", "D2a", "D1a", "D1p"]):
        cfg = os.path.join(OUT, "tlc", "vcell_dom_%s.cfg" % name)
        spec = FAMILIES[name]
        consts = dict(Inputs=("<-", "MCInputs"), Ties="keep", Order=spec["order"], LGx=spec["G"][0], LGy=spec["G"][1], LGz=spec["G"][2],
                      LDim=spec["dim"], LPer=spec["per"], LNmin=spec["nmin"], LNmax=spec["nmax"], LFix=spec["fix"], UseFile=False, Emit=False)
        write_cfg(cfg, constants=consts, invariants=["TypeOK", "QueriesInDomain", "Oriented", "NoDegenerate"],
                  view="AbstractView" if spec["view"] else None)
        r = run_tlc("mc/MCVCell.tla", cfg, env_extra={"VV_INPUTS": "/dev/null"}, timeout=3000)
        if r.violation:
            raise ToolError("VCell.QueriesInDomain violated in the model (%s): %s" % (name, r.violation))
        out.coverage["states"] += r.distinct
        out.coverage["transitions"] += r.states
        out.coverage["models"]["VCell.QueriesInDomain/" + name] = dict(states=r.distinct, wall=round(r.wall, 1))
    total_evals = 0
    for profile in ("release", "dev"):
        binp = build_harness(profile=profile)
        res_file = os.path.join(OUT, "C10_pred_%s.json" % profile)
        run_harness(binp, ["pred", "--cases", cases_file, "--out", res_file, "--seed", str(seed)])
        res = json.load(open(res_file))
        log("pred replay (%s): %s" % (profile, res["stats"]))
        total_evals += res["stats"]["evaluations"]
        for f in res["failures"]:
            out.violation("%s [%s profile] detail=%s" % (f["what"], profile, json.dumps(f["detail"])[:300]), f)
        out.coverage.setdefault("replay", {})[profile] = res["stats"]
        samples = res["samples"]
    out.coverage.update({
        "traces_validated_against_impl": ntuples,
        "evaluations": total_evals,
        "distinct_nontrivial": ntuples,
        "exhaustive": True,
        "rule": "TLC enumerates every 5-tuple of the grid (13^5 quick) and checks transcription = determinant = geometric definition; a "
                "deterministic 1/EmitMod sample of the tuples (all kinds, incl. co-spherical and flat tetrahedra) is replayed into the real "
                "predicate as is, with b/c swapped, scaled by 3, 2^20, 2^40+7, 2^49 and translated anywhere in [0,2^52), and - co-spherical "
                "tuples - with the query moved by one grid unit (expected sign from the first-order data TLC computed); the grid map is "
                "probed on 400 boxes (mirror images, periodic images, closed box) for range and monotonicity, in release and dev profile",
        "samples": samples[:2] if samples else [json.loads(open(cases_file).readline())],
    })
    out.assumptions = ["TLC integer arithmetic (32 bit, overflow aborts) on the small grid; transport to the 52-bit grid by homogeneity "
                       "(det scales with k^5) and translation invariance, which are theorems about determinants",
                       "i128 arithmetic in the harness for k*L + m4"]
    return out.finish()


BACKENDS = ["ibig", "dashu", "malachite", "num_bigint"]


def check_C11(tier, seed):
    out = Outcome("C11", tier, seed)
    cases_file = pred_cases(out, tier, "C11")
    ntuples = sum(1 for _ in open(cases_file))
    inputs = degenerate_lattice_inputs(seed, tier)
    inf = os.path.join(OUT, "C11_inputs.ndjson")
    with open(inf, "w") as f:
        for i in inputs:
            f.write(json.dumps(i) + "\n")
    per_backend = {}
    for be in BACKENDS:
        binp = build_harness(features=["rayon", be]) if be != "ibig" else build_harness()
        rf = os.path.join(OUT, "C11_pred_%s.json" % be)
        run_harness(binp, ["pred", "--cases", cases_file, "--out", rf, "--seed", str(seed)])
        pr = json.load(open(rf))
        tf = os.path.join(OUT, "C11_tokens_%s.json" % be)
        # one worker thread: every cell is built by the same thread, in index order - state that a backend keeps between calls
        # (per-thread caches) acts deterministically there; the default pool is covered by C09
        run_harness(binp, ["tokens", "--inputs", inf, "--out", tf], env_extra={"RAYON_NUM_THREADS": "1"})
        tk = json.load(open(tf))
        per_backend[be] = (pr, tk)
        log("backend %s: pred %s, exact calls %d (non-zero decisions %d)" % (be, pr["stats"], tk["exact_calls"], tk["nonzero_exact_decisions"]))
        for f in pr["failures"]:
            if "predicate" in f["what"]:
                out.violation("backend %s: %s detail=%s" % (be, f["what"], json.dumps(f["detail"])[:300]), dict(f, backend=be))
        if tk["exact_calls"] == 0:
            raise ToolError("the degenerate inputs never reached the exact predicate (vacuous)")
    ref_pr, ref_tk = per_backend["ibig"]
    ndiff = 0
    for be in BACKENDS[1:]:
        pr, tk = per_backend[be]
        if pr["sign_token"] != ref_pr["sign_token"]:
            out.violation("backend %s: predicate signs differ from ibig on the replayed vectors" % be, {"backend": be})
        for a, b in zip(ref_tk["tokens"], tk["tokens"]):
            if a["tok"] != b["tok"]:
                ndiff += 1
                inp = [i for i in inputs if i["id"] == a["id"]][0]
                out.violation("backend %s: tessellation differs bitwise from ibig (input id %d, embedding %d: %s vs %s)" % (be, a["id"], a["emb"], b["tok"], a["tok"]),
                              {"backend": be, "input": inp, "embedding_index": a["emb"], "ibig": a, "other": b})
    nruns = len(ref_tk["tokens"])
    out.coverage.update({
        "traces_validated_against_impl": ntuples * len(BACKENDS),
        "evaluations": sum(p["stats"]["evaluations"] for p, _ in per_backend.values()) + nruns * len(BACKENDS),
        "distinct_nontrivial": sum(1 for t in ref_tk["tokens"] if t["exact_calls"] > 0),
        "rule": "for each backend (ibig, dashu, malachite, num_bigint; rug cannot be built here: no m4/GMP): the VPred vectors must give the "
                "specification's sign; the dump tokens of the tessellations of degenerate lattice inputs x 4 embeddings must be bitwise equal "
                "to ibig's. distinct_nontrivial = (input, embedding) runs in which the exact predicate was consulted; "
                "nonzero_exact_decisions counts exact decisions that were not ties (where the sign extraction matters)",
        "backends": {be: dict(pred=p["stats"], exact_calls=t["exact_calls"], nonzero_exact_decisions=t["nonzero_exact_decisions"],
                              runs_with_exact=t["runs_with_exact"]) for be, (p, t) in per_backend.items()},
        "samples": [inputs[0], inputs[-1]],
        "token_differences": ndiff,
    })
    out.assumptions = ["rug backend out of reach (needs m4/GMP)", "same assumptions as C10 for the predicate vectors"]
    return out.finish()


# ----------------------------------------------------------------------------------------------
# API histories (VSession): spec -> impl -> spec
# ----------------------------------------------------------------------------------------------
SESSION_OWNERS = {"C13": {"convert", "direct", "cellint", "faceint", "facesym", "radii"},
                  "C15": {"cellrt", "cellset", "cells", "clone", "withfaces", "radii"},
                  "C09": {"rebuild", "cells", "clone", "cellint", "faceint", "facesym", "convert", "direct"}}


def session_pipeline(out, tier, seed, pairs, long_len):
    """TLC enumerates every history of API calls of a given length from VSession (the public API as one object with a
    type-state); the harness executes each history on a fresh VoronoiIntegrator and records the token of what every call
    returned; VSessionTrace validates the sessions: calls legal in the type-state, no observation depends on the history."""
    ensure_dirs()
    prop = out.prop
    files = {}
    for name, dims3, ln in (("h3", "D3T", 3), ("h3long", "D3T", long_len), ("h2", "D3F", 3)):
        cfg = os.path.join(OUT, "tlc", "vsession_%s.cfg" % name)
        write_cfg(cfg, constants=dict(Dims3=("<-", dims3), MaxLen=ln), invariants=["TypeOK", "NoFacesBelow3D", "EmitHist"], properties=["Monotone"])
        path = os.path.join(OUT, "%s_%s.ndjson" % (prop, name))
        with open(path, "w") as f:
            r = run_tlc("mc/MCVSession.tla", cfg, workers=4, tags=("HIST",), tag_sink={"HIST": f}, timeout=1800)
        if r.violation:
            raise ToolError("VSession violates its own invariant: %s" % r.violation)
        out.coverage["states"] = out.coverage.get("states", 0) + r.distinct
        out.coverage["transitions"] = out.coverage.get("transitions", 0) + r.states
        out.coverage.setdefault("models", {})["VSession/" + name] = dict(states=r.distinct, length=ln)
        files[name] = path
    binp = build_harness()
    res_file = os.path.join(OUT, "%s_session.json" % prop)
    trace = os.path.join(OUT, "%s_session.ndjson" % prop)
    run_harness(binp, ["session", "--out", res_file, "--trace", trace, "--hist3", files["h3"], "--hist3long", files["h3long"], "--hist2", files["h2"],
                       "--seed", str(seed), "--pairs", str(pairs)], timeout=7200)
    res = json.load(open(res_file))
    log("session recorder: %s" % res["stats"])
    cfg = os.path.join(OUT, "tlc", "vsessiontrace.cfg")
    write_cfg(cfg, spec="TSpec", invariants=["Consumed", "Summary"], postcondition="TraceAccepted")
    r = run_tlc("trace/VSessionTrace.tla", cfg, workers=1, dfs=True, env_extra={"VV_TRACE": trace}, tags=("VERDICT", "SUMMARY"), timeout=3000, xmx="8g")
    if r.violation or not r.ok:
        raise ToolError("VSessionTrace could not consume the sessions: %s\n%s" % (r.violation or r.error, r.raw_tail[-2000:]))
    own = SESSION_OWNERS[prop]
    bad = [v for t, v in r.cases if t == "VERDICT"]
    summ = [v for t, v in r.cases if t == "SUMMARY"]
    nbad = 0
    for v in bad:
        if v["op"] in own:
            nbad += 1
            if nbad <= 3:
                out.violation("API history %s + [%s]: %s" % (v["hist"], v["op"], v["what"]), dict(verdict=v, pairs=res["pairs"], seed=seed))
    out.coverage["sessions"] = dict(res["stats"], accepted_calls=(summ[0]["calls"] if summ else 0), rejected_sessions=len(bad), owned_ops=sorted(own))
    out.coverage["traces_validated_against_impl"] = out.coverage.get("traces_validated_against_impl", 0) + res["stats"]["sessions"] - len(bad)
    out.coverage["rule"] = out.coverage.get("rule", "") + (
        " || API histories (VSession): every sequence of %d calls (and of %d calls on one input) out of {cells, cellset, cellint, faceint, facesym, "
        "convert, direct, rebuild, clone, cellrt, withfaces} executed on a fresh integrator for %d (input, mask) pairs of all dimensionalities; "
        "VSessionTrace accepts a session iff every call is legal in the type-state and returns bit for bit what the same observation "
        "returned before in that session (direct = convert without faces; rebuild / clone = cells; cell round trip through the other "
        "type-state = cell integrals); this check owns the calls %s" % (3, long_len, res["stats"]["pairs"], sorted(own)))


# ----------------------------------------------------------------------------------------------
# C14 / C15: polytopes with faces, decompositions fed to custom integrals (VFaces, VDecomp)
# ----------------------------------------------------------------------------------------------
def faces_model(out, tier, seed=0, measure=False):
    fams = [("R3s", FAMILIES["R3s"])] if tier == "quick" else [("R3a", FAMILIES["R3a"]), ("P3b", FAMILIES["P3b"]), ("R3x", FAMILIES["R3x"])]
    # + seeded larger lattice inputs, among them fcc / bcc sub-lattices (cells with vertices where four or more faces meet)
    inputs = sim_inputs(seed, 9 if tier == "quick" else 72, tier, dims=(3,))
    inf = os.path.join(OUT, "%s_faces_siminputs.ndjson" % out.prop)
    ensure_dirs()
    with open(inf, "w") as f:
        for i in inputs:
            f.write(json.dumps(i) + "\n")
    fams = fams + [("sim", fam((1, 1, 1), 3, False, 1, 1, order="fixed", fix=False, view=False))]
    for name, spec in fams:
        cfg = os.path.join(OUT, "tlc", "vfaces_%s_%s.cfg" % (out.prop, name))
        consts = dict(Inputs=("<-", "MCInputs"), Ties="keep", Order="fixed", LGx=spec["G"][0], LGy=spec["G"][1], LGz=spec["G"][2],
                      LDim=spec["dim"], LPer=spec["per"], LNmin=spec["nmin"], LNmax=spec["nmax"], LFix=spec["fix"], UseFile=(name == "sim"), Emit=False)
        write_cfg(cfg, constants=consts, invariants=["TypeOK", "Closed", "Euler", "Oriented", "FacesOK", "CcwInward", "OrderIndependent", "DecompOK"]
                  + (["MeasureOK"] if measure else []))
        r = run_tlc("mc/MCVMeasure.tla" if measure else "mc/MCVFaces.tla", cfg, env_extra={"VV_INPUTS": inf if name == "sim" else "/dev/null"}, timeout=3000)
        if r.violation:
            raise ToolError("VFaces model violates its own invariant (%s): %s\n%s" % (name, r.violation, r.raw_tail[-2000:]))
        out.coverage["states"] = out.coverage.get("states", 0) + r.distinct
        out.coverage["transitions"] = out.coverage.get("transitions", 0) + r.states
        out.coverage.setdefault("models", {})["VFaces/" + name] = dict(states=r.distinct, wall=round(r.wall, 1))
        log("VFaces/VDecomp model %s: %d states (%.1fs)" % (name, r.distinct, r.wall))


def poly_pipeline(tier, seed, tag):
    ensure_dirs()
    binp = build_harness()
    res_file = os.path.join(OUT, "%s_poly_result.json" % tag)
    trace_file = os.path.join(OUT, "%s_poly_trace.ndjson" % tag)
    run_harness(binp, ["poly", "--out", res_file, "--trace", trace_file, "--seed", str(seed), "--count", "16" if tier == "quick" else "150",
                       "--nmax", "30" if tier == "quick" else "60"], timeout=7200)
    res = json.load(open(res_file))
    log("poly recorder: %s" % res["stats"])
    cfg = os.path.join(OUT, "tlc", "vfacestrace.cfg")
    write_cfg(cfg, spec="TSpec", invariants=["Consumed"], postcondition="TraceAccepted")
    r = run_tlc("trace/VFacesTrace.tla", cfg, workers=1, dfs=True, env_extra={"VV_TRACE": trace_file}, tags=("VERDICT",), timeout=3000, xmx="8g")
    if r.violation or not r.ok:
        raise ToolError("VFacesTrace could not consume the trace: %s\n%s" % (r.violation or r.error, r.raw_tail[-2000:]))
    return res, [v for _, v in r.cases], trace_file


def apply_poly(out, res, verdicts, trace_file, prop):
    ok = 0
    bad = {}
    for v in verdicts:
        mine = [x for x in v["failed"] if (("[C14]" in x) == (prop == "C14"))]
        if not v["failed"]:
            ok += 1
        for x in mine:
            bad.setdefault(x, []).append(v["line"])
    if bad:
        lines = open(trace_file).read().splitlines()
        for x, ls in bad.items():
            out.violation("VFacesTrace rejected %d recorded cell(s): %s" % (len(ls), x), {"trace_line": json.loads(lines[ls[0] - 1]), "lines": ls[:20]})
    for f in res["failures"]:
        if f["prop"] == prop:
            out.violation("%s detail=%s (input kind %s, n=%d)" % (f["what"], json.dumps(f["detail"])[:300], f["input"]["kind"], len(f["input"]["gens"])), f)
    cov = out.coverage
    cov["traces_validated_against_impl"] = ok
    cov["evaluations"] = res["stats"]["cells"]
    cov["distinct_nontrivial"] = res["stats"]["cells"]
    cov["samples"] = res["samples"][:2]
    cov["poly_stats"] = res["stats"]


def check_C15(tier, seed):
    out = Outcome("C15", tier, seed)
    faces_model(out, tier, seed)
    res, verdicts, tf = poly_pipeline(tier, seed, "C15")
    apply_poly(out, res, verdicts, tf, "C15")
    out.coverage["rule"] = ("every constructed 3D cell of seeded float inputs (uniform, clustered, near-lattice, exact lattice, shells with ~90 faces, "
                            "rings with ~30-gons, anisotropic, periodic or not) x masks (none, random, odd cells): one trace line per cell; TLC "
                            "re-runs the face extraction on the recorded vertex triples and checks incidence, simple cycles, shared planes, "
                            "direction, Euler, accessors; the harness checks vertex = plane intersection, inside all half-spaces, planarity, "
                            "convexity + ccw about the inward normal, polygon area = area integral, discard/with_faces identity, rejection in 1D/2D")
    session_pipeline(out, tier, seed, 6 if tier == "quick" else 20, 4)
    out.assumptions = ["geometric clauses are checked numerically with tolerance 50 * (1e-9 scale + 2^12 ulp)", "unchecked accessors: memory safety itself is not "
                       "decided (type-state machine VFaces.CanCall is enforced by the Rust type system)"]
    return out.finish()


def check_C14(tier, seed):
    out = Outcome("C14", tier, seed)
    faces_model(out, tier, seed, measure=True)
    res, verdicts, tf = poly_pipeline(tier, seed, "C14")
    apply_poly(out, res, verdicts, tf, "C14")
    out.coverage["rule"] = ("the harness IS a downstream crate implementing CellIntegral / FaceIntegral (ProbeCell: signed volume + 10 monomial moments "
                            "up to degree 2; ProbeFace: signed area, first moment, distance of fed triangles from the face plane): per cell the moments of "
                            "both decompositions must equal those of the polytope integrated independently from its face polygons; per face the fed "
                            "triangles lie in the plane and sum to the polygon area; TLC (VDecomp) checks the number of tetrahedra / triangles fed per "
                            "plane in both decompositions and that the cell handed to init is the cell with the same index, under masks; design level "
                            "(VMeasure.MeasureOK): on every finished lattice cell the projection-based decomposition (feet / line projections of the "
                            "generator, six signed tetrahedra per vertex) and the fan decomposition agree PER PLANE in volume, first and second "
                            "moments, signed area, face moments and area vector; fed triangles lie in their plane; exact rational identities "
                            "evaluated by TLC modulo three primes")
    out.assumptions = ["per-cell extra data of a type other than () cannot be implemented downstream (blanket impl of the *WithData traits, E0119): "
                       "the data-alignment clause is observed through the cell passed to init only (finding F10, DESIGN.md)",
                       "moment tolerance 1e-9 * sum|tet volume| * (max |coordinate|)^degree"]
    return out.finish()


# ----------------------------------------------------------------------------------------------
# C19: geometry helpers (VHelpers)
# ----------------------------------------------------------------------------------------------
HELP_INVS = ["DefProject", "DefProjectIntersection", "DefIntersect", "DefVolume", "DefArea", "DefTwo", "DefThree", "DefFour", "DefExtend", "EmitHelp"]


def check_C19(tier, seed):
    out = Outcome("C19", tier, seed)
    ensure_dirs()
    cases_file = os.path.join(OUT, "C19_cases.ndjson")
    cfg = os.path.join(OUT, "tlc", "vhelpers.cfg")
    write_cfg(cfg, constants=dict(R=2 if tier == "quick" else 3, EmitMod=1, Emit=True), invariants=HELP_INVS)
    with open(cases_file, "w") as f:
        r = run_tlc("VHelpers.tla", cfg, tag_sink={"HELP": f}, tags=("HELP",), timeout=3000)
    if r.violation:
        raise ToolError("VHelpers: a closed form violates its defining equation: %s\n%s" % (r.violation, r.raw_tail[-2000:]))
    out.coverage["states"] = r.distinct
    out.coverage["transitions"] = r.states
    log("VHelpers: %d argument tuples (%.1fs)" % (r.distinct, r.wall))
    binp = build_harness()
    res_file = os.path.join(OUT, "C19_result.json")
    run_harness(binp, ["helpers", "--cases", cases_file, "--out", res_file])
    res = json.load(open(res_file))
    log("helpers replay: %s" % res["stats"])
    for f in res["failures"]:
        out.violation("%s: %s detail=%s case=%s" % (f["case"]["op"], f["what"], json.dumps(f["detail"]), json.dumps(f["case"])[:200]), f)
    out.coverage.update({
        "traces_validated_against_impl": res["stats"]["cases"],
        "evaluations": res["stats"]["evaluations"],
        "distinct_nontrivial": res["stats"]["cases"],
        "exhaustive": True,
        "per_op": res["stats"]["per_op"],
        "rule": "every small integer argument tuple of each exported helper (non-degenerate: independent normals, affinely independent points; "
                "non-unit normals; integer-length offsets for extend); TLC checks the defining equations on the exact closed forms and prints "
                "each tuple with its exact result; replay under 3 similarity embeddings with the plane normals rescaled by 1, 2.5, 0.3; "
                "implementation outputs additionally checked directly (on the planes, idempotent, antisymmetric, passes through the points, "
                "order independent); distinct = argument tuples",
        "samples": res["samples"][:4],
    })
    out.assumptions = ["tolerance 1e-11 * (1 + coordinate scale), relaxed by the conditioning (offset/scale)^2 for circumsphere determinants",
                       "irrational results compared after taking the square root of the exact squared value in f64"]
    return out.finish()


# ----------------------------------------------------------------------------------------------
# C20: auxiliary structures (VAux)
# ----------------------------------------------------------------------------------------------
def knn_cases(seed, tier):
    """Particle sets on the quarter-integer lattice inside [0, G) (TLC sees coordinates x4), cubic and non-cubic boxes,
    several maximal cell widths, k from 0 to n-1."""
    rng = random.Random(seed * 13 + 20)
    cases = []
    boxes = [(4, 4, 4), (3, 3, 3), (6, 2, 3), (2, 5, 4), (8, 1, 2), (5, 5, 1), (3, 7, 2)] if tier == "quick" else \
        [(4, 4, 4), (3, 3, 3), (6, 2, 3), (2, 5, 4), (8, 1, 2), (5, 5, 1), (7, 3, 2), (2, 2, 9), (6, 6, 6), (1, 1, 12), (3, 7, 2), (10, 3, 1)]
    for G in boxes:
        for rep in range(3 if tier == "quick" else 8):
            n = rng.randint(2, 40)
            pts = set()
            while len(pts) < n:
                if rep == 0:
                    p = (rng.randrange(G[0]) * 4 + 2, rng.randrange(G[1]) * 4 + 2, rng.randrange(G[2]) * 4 + 2)   # cell centres of the unit lattice
                    if len(pts) >= G[0] * G[1] * G[2] - 1:
                        n = len(pts) + 1
                else:
                    p = (rng.randrange(4 * G[0]), rng.randrange(4 * G[1]), rng.randrange(4 * G[2]))
                pts.add(p)
            pts = sorted(pts)
            n = len(pts)
            ks = sorted(set([0, 1, 2, n // 2, n - 1] + [rng.randint(0, n - 1)]))
            for mcw in ([0.7, 1.0, 1.6, 3.0] if tier == "quick" else [0.5, 0.7, 1.0, 1.3, 1.6, 2.5, 3.0, 10.0]):
                for k in ks:
                    if k >= n:
                        continue
                    h, o = rng.choice([(1.0, [0.0, 0.0, 0.0]), (0.5, [1.0, 1.0, 1.0]), (2.0, [-3.0, 5.0, 0.5]),
                                       (2.0 ** -30, [0.0, 0.0, 0.0]), (2.0 ** 20, [0.0, 0.0, 0.0])])
                    cases.append({"id": len(cases), "G": list(G), "pts": [[p[0] / 4.0, p[1] / 4.0, p[2] / 4.0] for p in pts],
                                  "k": k, "mcw": mcw, "h": h, "o": o})
    return cases


def check_C20(tier, seed):
    out = Outcome("C20", tier, seed)
    ensure_dirs()
    # exact minimal enclosing spheres of every small lattice point set
    sph = os.path.join(OUT, "C20_spheres.ndjson")
    cfg = os.path.join(OUT, "tlc", "vaux.cfg")
    write_cfg(cfg, constants=dict(GX=2, GY=2, GZ=1, KMin=2, KMax=4 if tier == "quick" else 5, Emit=True),
              invariants=["Exists", "Unique", "Contains", "WelzlNeverDegenerate", "WelzlMinimal", "WelzlSingle", "EmitSphere"])
    with open(sph, "w") as f:
        r = run_tlc("mc/MCVAux.tla", cfg, tag_sink={"SPHERE": f}, tags=("SPHERE",), timeout=3000)
    if r.violation:
        raise ToolError("VAux: the brute-force minimal sphere is not well defined: %s\n%s" % (r.violation, r.raw_tail[-2000:]))
    out.coverage["states"] = r.distinct
    out.coverage["transitions"] = r.states
    log("VAux spheres: %d point sets (%.1fs)" % (r.distinct, r.wall))
    # design level: the ring search of Space::knn as a state machine (VKnn): cells of a ring in any order, every particle set of
    # a small non-cubic grid, every query particle; the skip and the termination bounds are lower bounds, the result is k nearest
    knn_models = [("k1", dict(CDx=2, CDy=3, CDz=1, CWx=3, CWy=2, CWz=4, NP=3, K=1, Step=1, Flat=True)),
                  ("k2", dict(CDx=2, CDy=3, CDz=1, CWx=3, CWy=2, CWz=4, NP=3, K=2, Step=1, Flat=True))]
    if tier == "thorough":
        knn_models += [("k2n4", dict(CDx=2, CDy=3, CDz=1, CWx=3, CWy=2, CWz=4, NP=4, K=2, Step=1, Flat=True)),
                       ("3d", dict(CDx=2, CDy=2, CDz=2, CWx=2, CWy=1, CWz=2, NP=3, K=1, Step=1, Flat=False)),
                       ("k0", dict(CDx=3, CDy=3, CDz=1, CWx=4, CWy=2, CWz=4, NP=2, K=0, Step=2, Flat=True))]
    for name, c in knn_models:
        cfgk = os.path.join(OUT, "tlc", "vknn_%s.cfg" % name)
        consts = dict(c)
        consts.update(CD=("<-", "MCCD"), CW=("<-", "MCCW"), Sets=("<-", "MCSets"), StopMode="code")
        write_cfg(cfgk, constants=consts, invariants=["TypeOK", "Sound", "CellBound", "RingBound", "Result", "Progress"])
        rk = run_tlc("mc/MCVKnn.tla", cfgk, timeout=3000)
        if rk.violation:
            raise ToolError("VKnn: the ring search of the model violates its own invariant (%s): %s\n%s" % (name, rk.violation, rk.raw_tail[-2000:]))
        out.coverage["states"] += rk.distinct
        out.coverage["transitions"] += rk.states
        out.coverage.setdefault("models", {})["VKnn/" + name] = dict(states=rk.distinct, wall=round(rk.wall, 1), **{k: v for k, v in c.items()})
        log("VKnn %s: %d states (%.1fs)" % (name, rk.distinct, rk.wall))
    if tier == "thorough":
        # non-vacuity: a termination bound that is one cell width too optimistic must be rejected by the model
        cfgk = os.path.join(OUT, "tlc", "vknn_eager.cfg")
        consts = dict(CDx=2, CDy=3, CDz=1, CWx=3, CWy=2, CWz=4, NP=3, K=1, Step=1, Flat=True, CD=("<-", "MCCD"), CW=("<-", "MCCW"),
                      Sets=("<-", "MCSets"), StopMode="eager")
        write_cfg(cfgk, constants=consts, invariants=["Result"])
        rk = run_tlc("mc/MCVKnn.tla", cfgk, timeout=3000)
        if not rk.violation:
            raise ToolError("VKnn accepts an over-optimistic termination bound: the model is vacuous")
        out.coverage["models"]["VKnn/eager (must fail)"] = dict(violated=True)
    kc = knn_cases(seed, tier)
    kf = os.path.join(OUT, "C20_knn_cases.ndjson")
    with open(kf, "w") as f:
        for c in kc:
            # TLC needs integers: doubled coordinates
            c2 = dict(c)
            f.write(json.dumps(c2) + "\n")
    binp = build_harness()
    res_file = os.path.join(OUT, "C20_result.json")
    tf = os.path.join(OUT, "C20_knn_trace_raw.ndjson")
    run_harness(binp, ["aux", "--knn-cases", kf, "--sphere-cases", sph, "--out", res_file, "--trace", tf, "--seed", str(seed)])
    res = json.load(open(res_file))
    log("aux replay: %s" % res["stats"])
    # integer coordinates for TLC (positions are multiples of 1/4)
    tf2 = os.path.join(OUT, "C20_knn_trace.ndjson")
    raw = []
    with open(tf) as f, open(tf2, "w") as g:
        for line in f:
            o = json.loads(line)
            raw.append(o)
            o2 = dict(o)
            o2["pts"] = [[int(round(4 * x)) for x in p] for p in o["pts"]]
            g.write(json.dumps(o2) + "\n")
    cfg = os.path.join(OUT, "tlc", "vauxtrace.cfg")
    write_cfg(cfg, spec="TSpec", invariants=["Consumed"], postcondition="TraceAccepted")
    r2 = run_tlc("trace/VAuxTrace.tla", cfg, workers=1, dfs=True, env_extra={"VV_TRACE": tf2}, tags=("VERDICT",), timeout=3000)
    if r2.violation or not r2.ok:
        raise ToolError("VAuxTrace could not consume the trace: %s\n%s" % (r2.violation or r2.error, r2.raw_tail[-2000:]))
    findings = {f["id"]: f for f in load_known_findings()}
    ok = 0
    for _, v in r2.cases:
        if not v["failed"]:
            ok += 1
            continue
        rec = raw[v["line"] - 1]
        cubic = rec["G"][0] == rec["G"][1] == rec["G"][2]
        for x in v["failed"]:
            out.violation("knn: %s (box %s, max cell width %s, k=%d, n=%d)" % (x, rec["G"], rec["mcw"], rec["k"], len(rec["pts"])), rec)
    for f in res["failures"]:
        out.violation("%s detail=%s" % (f["what"], json.dumps(f["detail"])[:300]), f)
    out.coverage.update({
        "traces_validated_against_impl": ok,
        "evaluations": res["stats"]["knn_calls"] + res["stats"]["sphere_evaluations"],
        "distinct_nontrivial": res["stats"]["knn_calls"] + res["stats"]["sphere_sets"],
        "replay": res["stats"],
        "rule": "knn: lattice particle sets (full and random) in cubic and non-cubic boxes x max cell widths x k in {0,1,2,n/2,n-1,random}: "
                "every particle's list validated by TLC against the definition with exact distances; spheres: every subset of size 2..4(5) of a "
                "3x3x2 lattice: TLC's exact minimal enclosing sphere (brute force over support sets) vs Welzl (equal), Epos6 (contains, not "
                "smaller), Epos6 of spheres (contains), points shuffled, 3 embeddings; single points",
        "samples": [kc[0], res["samples"][0] if res["samples"] else {}],
    })
    out.assumptions = ["knn on lattice particle sets only (exact distances for TLC)", "sphere tolerance 1e-7 relative (the library's own contains() uses 1e-10 slack)"]
    return out.finish()


CHECKS = {"C01": check_C01, "C02": check_C02, "C04": check_C04, "C05": check_C05, "C06": check_C06,
          "C08": check_C08, "C16": check_C16, "C03": check_C03, "C07": check_C07, "C12": check_C12, "C13": check_C13, "C09": check_C09, "C17": check_C17, "C18": check_C18, "C10": check_C10, "C11": check_C11, "C14": check_C14, "C15": check_C15, "C19": check_C19, "C20": check_C20}


def run_check(pid, tier, seed):
    if pid not in CHECKS:
        print("no check registered for %s" % pid, file=sys.stderr)
        return 2
    return CHECKS[pid](tier, seed)


def setup():
    """Everything that can be built ahead of time (the checks rebuild incrementally from /repo's working tree anyway)."""
    build_harness()
    build_harness(profile="dev")
    build_harness(features=["ibig"])
    for be in BACKENDS[1:]:
        build_harness(features=["rayon", be])
    return 0


def replay(path):
    obj = json.load(open(path))
    print(json.dumps(obj, indent=1)[:4000])
    return vvreplay(obj)


def vvreplay(obj):
    """Re-run the recorded failing case against the current tree."""
    case = obj.get("case") or {}
    if "input" in case and "embedding" in case:
        ensure_dirs()
        # regenerate the expected cells for exactly this input with TLC and replay it
        inf = os.path.join(OUT, "replay_input.ndjson")
        inp = dict(case["input"])
        inp["id"] = 1
        with open(inf, "w") as f:
            f.write(json.dumps(inp) + "\n")
        cases_file = os.path.join(OUT, "replay_cases.ndjson")
        open(cases_file, "w").close()
        spec = fam((1, 1, 1), 3, False, 1, 1, order="fixed", fix=False, view=False)
        run_vcell_family("replay", spec, "quick", 0, cases_file, inputs_file=inf)
        binp = build_harness()
        res_file = os.path.join(OUT, "replay_result.json")
        run_harness(binp, ["replay-cells", "--cases", cases_file, "--out", res_file, "--tier", obj.get("tier", "quick"),
                           "--seed", str(obj.get("seed", 0))])
        res = json.load(open(res_file))
        bad = [f for f in res["failures"] if f["prop"] == obj["property"] or True]
        for f in bad[:10]:
            print("FAIL", f["prop"], f["what"], json.dumps(f["detail"])[:300])
        print("replay: %d failure(s)" % len(bad))
        return 1 if bad else 0
    # a float input of the tess recorder (pipeline F): rebuild it, record it, validate the recorded run with VTessTrace
    inp = case.get("input") if isinstance(case.get("input"), dict) else None
    if inp and "anchor" in inp:
        ensure_dirs()
        inf = os.path.join(OUT, "replay_finput.ndjson")
        with open(inf, "w") as f:
            f.write(json.dumps(inp) + "\n")
        binp = build_harness()
        res_file = os.path.join(OUT, "replay_tess_result.json")
        trace_file = os.path.join(OUT, "replay_tess_trace.ndjson")
        run_harness(binp, ["tess", "--out", res_file, "--trace", trace_file, "--tier", obj.get("tier", "quick"), "--seed", str(obj.get("seed", 0)),
                           "--inputs", inf])
        res = json.load(open(res_file))
        cfg = os.path.join(OUT, "tlc", "vtesstrace.cfg")
        write_cfg(cfg, spec="TSpec", invariants=["Consumed"], postcondition="TraceAccepted")
        r = run_tlc("trace/VTessTrace.tla", cfg, workers=1, dfs=True, env_extra={"VV_TRACE": trace_file}, tags=("VERDICT",), timeout=3000)
        bad = 0
        for p in res["panics"]:
            print("PANIC", p["message"])
            bad += 1
        for f in res["failures"][:20]:
            print("FAIL", f["prop"], f["what"], json.dumps(f["detail"])[:300])
        bad += len(res["failures"])
        for _, v in r.cases:
            for x in v["failed"]:
                print("TLC ", "line", v["line"], x)
                bad += 1
        print("replay: %d failure(s)" % bad)
        return 1 if bad else 0
    # a recorded trace line rejected by a trace specification: validate that line again (it carries what the code returned when
    # the check ran; re-recording needs the whole check)
    tl = case.get("trace_line")
    mod = {"C17": "trace/VNNTrace.tla", "C20": "trace/VAuxTrace.tla", "C14": "trace/VFacesTrace.tla", "C15": "trace/VFacesTrace.tla",
           "C03": "trace/VTessTrace.tla", "C07": "trace/VTessTrace.tla", "C12": "trace/VTessTrace.tla", "C13": "trace/VTessTrace.tla",
           "C02": "trace/VTessTrace.tla", "C04": "trace/VTessTrace.tla", "C16": "trace/VTessTrace.tla", "C09": "trace/VParTrace.tla"}.get(obj.get("property"))
    if isinstance(tl, dict) and mod:
        ensure_dirs()
        tf = os.path.join(OUT, "replay_line.ndjson")
        if obj.get("property") == "C20":
            tl = dict(tl)
            tl["pts"] = [[int(round(4 * x)) for x in p] for p in tl["pts"]]
        with open(tf, "w") as f:
            f.write(json.dumps(tl) + "\n")
        cfg = os.path.join(OUT, "tlc", "replay_line.cfg")
        write_cfg(cfg, spec="TSpec", invariants=["Consumed"], postcondition="TraceAccepted")
        r = run_tlc(mod, cfg, workers=1, dfs=True, env_extra={"VV_TRACE": tf}, tags=("VERDICT",), timeout=1200)
        bad = 0
        for _, v in r.cases:
            f_ = v.get("failed", [v.get("verdict")] if v.get("verdict") not in (None, "ok") else [])
            for x in f_:
                print("TLC ", x)
                bad += 1
        print("replay (recorded line re-validated by %s): %d failure(s)" % (mod, bad))
        return 1 if bad else 0
    # a vector of the exact predicate / of a geometry helper: replay that one case
    if isinstance(case.get("case"), dict) and obj.get("property") in ("C19",):
        ensure_dirs()
        cf = os.path.join(OUT, "replay_help.ndjson")
        with open(cf, "w") as f:
            f.write(json.dumps({"case": case["case"], "expected": case.get("expected")}) + "\n")
        binp = build_harness()
        rf = os.path.join(OUT, "replay_help.json")
        run_harness(binp, ["helpers", "--cases", cf, "--out", rf])
        res = json.load(open(rf))
        for f_ in res["failures"][:10]:
            print("FAIL", f_["what"], json.dumps(f_["detail"]))
        print("replay: %d failure(s)" % len(res["failures"]))
        return 1 if res["failures"] else 0
    # an API history rejected by VSessionTrace: execute the histories again (same seed: same inputs, masks and call sequences)
    if isinstance(case.get("verdict"), dict) and "hist" in case["verdict"] and obj.get("property") in SESSION_OWNERS:
        o2 = Outcome(obj["property"], obj.get("tier", "quick"), int(obj.get("seed", 0)))
        session_pipeline(o2, obj.get("tier", "quick"), int(obj.get("seed", 0)), {"C13": 10, "C15": 6, "C09": 5}[obj["property"]], 4)
        for sm, _ in o2.violations[:10]:
            print("FAIL", sm[:400])
        print("replay: %d failure(s)" % len(o2.violations))
        return 1 if o2.violations else 0
    print("replay: nothing executable recorded in this file (the case is printed above)")
    return 2
