#!/usr/bin/env python3
"""Driver library for the meshless_voronoi TLA+ verification framework.

Stdlib only.  Responsibilities:
  * build the Rust conformance harness from /repo's current working tree (hooks on);
  * run TLC on the specifications under /verif/spec (always under `timeout`), parse state counts,
    per-action coverage and the CASE/REPLAY lines printed by the specs;
  * run the harness on TLC's cases and TLC's trace specifications on the harness' traces;
  * decide verdicts, write /verif/evidence/<id>.json, print VIOLATION / KNOWN-FINDING lines.
Exit codes: 0 held, 1 violation (with a VIOLATION line and a replay file), 2 tool error/timeout.
"""
import hashlib
import json
import os
import random
import re
import shutil
import subprocess
import sys
import time

ROOT = os.path.dirname(os.path.abspath(__file__))
SPEC = os.path.join(ROOT, "spec")
# The three overrides below exist only for the sensitivity matrix (seeded/matrix.sh), which runs the checks
# against a scratch copy of the repository with a seeded change; registered checks never set them.
HARNESS = os.environ.get("VV_HARNESS_DIR", os.path.join(ROOT, "harness"))
OUT = os.environ.get("VV_OUT", os.path.join(ROOT, "out"))
EVID = os.environ.get("VV_EVID", os.path.join(ROOT, "evidence"))
REPO = "/repo"
NCPU = os.cpu_count() or 4


class ToolError(Exception):
    pass


def log(*a):
    print("[vv]", *a, file=sys.stderr, flush=True)


def seed_from_env():
    try:
        return int(os.environ.get("VERIF_SEED", "0"))
    except ValueError:
        return 0


def ensure_dirs():
    for d in (OUT, EVID, os.path.join(OUT, "replay"), os.path.join(OUT, "tlc")):
        os.makedirs(d, exist_ok=True)


# ----------------------------------------------------------------------------------------------
# harness
# ----------------------------------------------------------------------------------------------
_built = {}


def build_harness(profile="release", features=None, timeout=1800):
    """cargo build of /verif/harness against /repo's current working tree, hooks enabled
    (harness/.cargo/config.toml passes --cfg meshless_voro_verif).  Returns the binary path."""
    key = (profile, tuple(features or ()))
    if key in _built:
        return _built[key]
    cmd = ["cargo", "build", "--offline"]
    if profile == "release":
        cmd.append("--release")
    tdir = "target"
    if features is not None:
        cmd += ["--no-default-features", "--features", ",".join(features)]
        tdir = "target-" + "-".join(features)
        cmd += ["--target-dir", tdir]
    env = dict(os.environ, CARGO_NET_OFFLINE="true")
    t0 = time.time()
    p = subprocess.run(cmd, cwd=HARNESS, env=env, stdout=subprocess.PIPE, stderr=subprocess.STDOUT,
                       text=True, timeout=timeout)
    if p.returncode != 0:
        sys.stderr.write(p.stdout[-6000:])
        raise ToolError("harness build failed (the tree under /repo does not compile with hooks on)")
    binp = os.path.join(HARNESS, tdir, "release" if profile == "release" else "debug", "vvh")
    log("harness built (%s,%s) in %.1fs" % (profile, features, time.time() - t0))
    _built[key] = binp
    return binp


def run_harness(binp, args, timeout=3600, env_extra=None):
    env = dict(os.environ)
    if env_extra:
        env.update(env_extra)
    p = subprocess.run([binp] + args, cwd=ROOT, env=env, stdout=subprocess.PIPE, stderr=subprocess.PIPE,
                       text=True, timeout=timeout)
    if p.returncode not in (0,):
        sys.stderr.write(p.stderr[-4000:])
        raise ToolError("harness %s exited with %d" % (args[0], p.returncode))
    return p.stdout


# ----------------------------------------------------------------------------------------------
# TLC
# ----------------------------------------------------------------------------------------------
TLC_JAR = "/opt/veriftools/tla/tla2tools.jar:/opt/veriftools/tla/CommunityModules-deps.jar"


class TlcResult:
    def __init__(self):
        self.states = 0
        self.distinct = 0
        self.depth = 0
        self.ok = False
        self.violation = None      # text of an invariant/property violation
        self.error = None
        self.cases = []            # parsed JSON payloads of <<"TAG", "json">> lines
        self.coverage = {}         # action -> count
        self.raw_tail = ""
        self.wall = 0.0
        self.postcondition_failed = False
        self.printed = []


def write_cfg(path, spec="Spec", constants=None, invariants=(), properties=(), view=None,
              constraint=None, postcondition=None, init=None, next_=None, symmetry=None):
    lines = []
    if init and next_:
        lines.append("INIT %s" % init)
        lines.append("NEXT %s" % next_)
    else:
        lines.append("SPECIFICATION %s" % spec)
    if constants:
        lines.append("CONSTANTS")
        for k, v in constants.items():
            if isinstance(v, tuple) and v[0] == "<-":
                lines.append("  %s <- %s" % (k, v[1]))
            elif isinstance(v, bool):
                lines.append("  %s = %s" % (k, "TRUE" if v else "FALSE"))
            elif isinstance(v, str):
                lines.append('  %s = "%s"' % (k, v))
            else:
                lines.append("  %s = %s" % (k, v))
    if invariants:
        lines.append("INVARIANTS " + " ".join(invariants))
    if properties:
        lines.append("PROPERTIES " + " ".join(properties))
    if view:
        lines.append("VIEW %s" % view)
    if constraint:
        lines.append("CONSTRAINT %s" % constraint)
    if postcondition:
        lines.append("POSTCONDITION %s" % postcondition)
    if symmetry:
        lines.append("SYMMETRY %s" % symmetry)
    lines.append("CHECK_DEADLOCK FALSE")
    os.makedirs(os.path.dirname(path), exist_ok=True)
    with open(path, "w") as f:
        f.write("\n".join(lines) + "\n")


_case_re = re.compile(r'^<<"([A-Z]+)", "(.*)">>$')


def run_tlc(module_path, cfg_path, workers=None, timeout=900, env_extra=None, simulate=None,
            coverage=False, dfs=False, xmx="8g", tags=("CASE",), tag_sink=None):
    """Run TLC. module_path relative to SPEC or absolute. Returns TlcResult.
    tag_sink: optional dict tag -> open file; matching payload lines are streamed there instead of
    being kept in memory."""
    ensure_dirs()
    res = TlcResult()
    workers = workers or max(2, NCPU - 2)
    meta = os.path.join("/tmp", "vv_tlc_%d_%d" % (os.getpid(), int(time.time() * 1000) % 100000000))
    cmd = ["timeout", str(int(timeout)), "java", "-XX:+UseParallelGC", "-Xmx" + xmx, "-Xss1g"]
    if dfs:
        cmd.append("-Dtlc2.tool.queue.IStateQueue=StateDeque")
    cmd.append("-DTLA-Library=%s" % os.pathsep.join([SPEC, os.path.join(SPEC, "mc"), os.path.join(SPEC, "trace")]))
    cmd += ["-cp", TLC_JAR, "tlc2.TLC", "-workers", str(workers), "-metadir", meta, "-cleanup",
            "-noGenerateSpecTE", "-config", cfg_path]
    if coverage:
        cmd += ["-coverage", "1"]
    if simulate:
        cmd += ["-simulate", simulate]
    cmd.append(module_path)
    env = dict(os.environ)
    env.pop("JAVA_TOOL_OPTIONS", None)
    if env_extra:
        env.update({k: str(v) for k, v in env_extra.items()})
    t0 = time.time()
    p = subprocess.Popen(cmd, cwd=SPEC, env=env, stdout=subprocess.PIPE, stderr=subprocess.STDOUT, text=True)
    tail = []
    in_violation = False
    for line in p.stdout:
        line = line.rstrip("\n")
        m = _case_re.match(line)
        if m and m.group(1) in tags:
            try:
                payload = json.loads('"' + m.group(2) + '"')
            except Exception:
                payload = m.group(2).replace('\\"', '"').replace("\\\\", "\\")
            if tag_sink is not None and m.group(1) in tag_sink:
                tag_sink[m.group(1)].write(payload + "\n")
            else:
                try:
                    res.cases.append((m.group(1), json.loads(payload)))
                except Exception as e:
                    raise ToolError("cannot parse TLC payload: %s (%s)" % (payload[:200], e))
            continue
        tail.append(line)
        if len(tail) > 400:
            tail = tail[-300:]
        m = re.search(r"(\d+) states generated, (\d+) distinct states found", line)
        if m:
            res.states = int(m.group(1))
            res.distinct = int(m.group(2))
        m = re.search(r"depth of the complete state graph search is (\d+)", line)
        if m:
            res.depth = int(m.group(1))
        if "Model checking completed. No error has been found" in line:
            res.ok = True
        if re.search(r"Invariant .* is violated|Action property .* is violated|Temporal properties were violated", line):
            res.violation = line
            in_violation = True
        if "POSTCONDITION" in line.upper() and ("violated" in line.lower() or "false" in line.lower()):
            res.postcondition_failed = True
        if line.startswith("Error:") and res.error is None and not in_violation:
            res.error = line
        m = re.match(r"^<(\w+) line \d+, col \d+ to line \d+, col \d+ of module (\w+)>: (\d+):(\d+)", line)
        if m:
            res.coverage[m.group(1)] = res.coverage.get(m.group(1), 0) + int(m.group(4))
        if line.startswith("<<") or line.startswith('"'):
            res.printed.append(line)
    p.wait()
    res.wall = time.time() - t0
    res.raw_tail = "\n".join(tail[-120:])
    shutil.rmtree(meta, ignore_errors=True)
    if p.returncode == 124:
        raise ToolError("TLC timed out after %ss on %s" % (timeout, cfg_path))
    if not res.ok and res.violation is None and not simulate:
        if res.error or p.returncode != 0:
            sys.stderr.write(res.raw_tail + "\n")
            raise ToolError("TLC failed on %s: %s" % (cfg_path, res.error))
    if simulate and res.violation is None and res.error is None:
        res.ok = True
    return res


# ----------------------------------------------------------------------------------------------
# evidence / verdicts / known findings
# ----------------------------------------------------------------------------------------------
def load_known_findings():
    p = os.path.join(ROOT, "known_findings.json")
    if not os.path.exists(p):
        return []
    return json.load(open(p))["findings"]


def write_replay(prop, name, obj):
    ensure_dirs()
    path = os.path.join(OUT, "replay", "%s_%s.json" % (prop, name))
    with open(path, "w") as f:
        json.dump(obj, f, indent=1, default=str)
    return path


def write_evidence(prop, tier, seed, coverage, wall, violations, assumptions=None, level="model_checking"):
    ensure_dirs()
    ev = {
        "property_id": prop,
        "tier": tier,
        "seed": int(seed),
        "level": level,
        "coverage": coverage,
        "assumptions": assumptions or [],
        "wall_s": round(wall, 2),
        "violations": int(violations),
    }
    with open(os.path.join(EVID, "%s.json" % prop), "w") as f:
        json.dump(ev, f, indent=1, default=str)
    return ev


def sha_of_files(paths):
    h = hashlib.sha256()
    for p in sorted(paths):
        h.update(p.encode())
        with open(p, "rb") as f:
            h.update(f.read())
    return h.hexdigest()[:16]
