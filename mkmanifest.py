#!/usr/bin/env python3
"""Regenerates MANIFEST.json from the table below (keeps it valid and in step with vvchecks.CHECKS)."""
import json, sys, os
sys.path.insert(0, os.path.dirname(os.path.abspath(__file__)))
import vvchecks

props = {json.loads(l)["id"]: json.loads(l) for l in open("/verif/properties.jsonl")}

T = {
 "C01": ("VCell (TLC: Final/Closed/Euler/Oriented/InsideCurrent on exhaustive small lattices, all orders of equidistant candidates, + seeded larger lattices) -> cells replayed into the code under 4+ similarity embeddings and compared (volume, centroid, vertices, faces); builder steps recorded through hooks validated by VCellTrace",
         "exact oracle only on integer-lattice inputs of bounded size; tolerance 1e-9*scale + 2^12 ulp; split edges (finding F2, frequent form repaired by eb81dbb) are followed by VCell.NewPoint / VCellTrace to the end of the history; residual F2 classified by VCellTrace ('discord')", "DESIGN.md §5 C01"),
 "C02": ("VCell lattice pipeline (1D/2D/3D, periodic/reflective, anisotropic, offsets, scales 1e-6..2e14): every measure > 0 and the sum = box measure; pipeline F: VTessTrace.VolChecks on quantised volumes of seeded float inputs; design level: VMeasure + VTileTrace - the EXACT volumes (rational, evaluated by TLC modulo three primes) of the cells the specification builds sum to the box measure for every lattice input, whatever the order of equidistant candidates",
         "sum identity checked per embedded run; quantisation 2^-26", "DESIGN.md §5 C02"),
 "C03": ("VTess model-checked (StoredOnce, StoredAtMostOnce, ListedBy*, all masks, reciprocal inputs incl. self-images); recorded non-symmetric face integrals of both sides validated by VTessTrace.RecipChecks on quantised areas/centroids/normals; numeric check at the 1e-9 threshold and antisymmetric flux in the harness; design level: VMeasure + VTileTrace.RecipFails - every positive-area face of every cell the specification builds has a mirror face with the opposite exact area vector and the same exact centroid (lattice inputs incl. periodic self-images)",
         "float inputs in general position + exactly snapping lattices; quantisation 2^-26 with slack 2", "DESIGN.md §5 C03"),
 "C04": ("lattice pipeline: normals vs spec normal -N/|N|, closure and divergence identities per cell on every embedding; pipeline F: the same identities on seeded float inputs under masks (tess recorder)",
         "identities hold up to the stated tolerance", "DESIGN.md §5 C04"),
 "C05": ("lattice pipeline in release AND dev profile on the degenerate families the lattice consists of (points on box faces/edges/corners, collinear, coplanar, co-spherical): no panic, finite, C01-C04 comparisons; every recorded clip decision validated against the exact Side sign by VCellTrace; totality at design level: liveness property VCell.Terminates (under weak fairness the cell machine always reaches pc = done) model-checked on small families",
         "the frequent form of finding F2 (split edges) was repaired by eb81dbb; its residual (tie decisions that give a removed set which is not a disc) is classified by VCellTrace ('discord') and stays an open known finding; failures on inputs with generators closer than 1e-7 of the box (or three mutually closer than 1e-4) are the open known finding F11; the tie breaker (exact predicate) is replayed on TLC's vectors in both profiles", "DESIGN.md §5 C05"),
 "C06": ("VCell periodic (all 3^d images as candidates; PeriodicNoWalls, ShiftLattice) -> replay; second route: real non-periodic build of the replicated set, central block; bitwise k*width shifts; translation invariance",
         "periodic lattices up to period 4 (integer range of TLC)", "DESIGN.md §5 C06"),
 "C07": ("VTess model-checked over all masks; every masked run validated by VTessTrace.MaskChecks against the full run of the same input (bit tokens for cells, plane signatures, per-cell face sets) and re-executed face rule",
         "masks: all 2^n for n<=4, sampled above", "DESIGN.md §5 C07"),
 "C08": ("VCell with dimensionality (slab, projected radius, images on active axes only, LowDimPrism) -> replay of 1D/2D lattice inputs; junk in unused components must give bitwise equal tokens",
         "closed form = the spec's exact 1D/2D cells", "DESIGN.md §5 C08"),
 "C09": ("parallel fragment of VTess model-checked for all interleavings (Deterministic, SharedImmutable, SlotOwnership); recorded TaskStart/TaskEnd events and result tokens of rayon pools 1..64 with seeded jitter validated by VParTrace against the sequential no-rayon build; API histories (VSession): TLC enumerates every sequence of 3 (4) calls on one object, the harness executes them on fresh objects, VSessionTrace requires every observation to be independent of the calls before it (rebuild / clone / repeated calls bitwise equal)",
         "implementation schedules are sampled, the model is exhaustive for N<=5, T<=3", "DESIGN.md §5 C09"),
 "C12": ("VTess (Link/Offsets/NeighbourIds) model-checked for arbitrary plane lists and masks; VTessTrace re-executes them on the recorded plane lists for both routes and requires the recorded arrays to be exactly the spec's",
         "all-integer data: decided completely by TLC per recorded run", "DESIGN.md §5 C12"),
 "C13": ("VTess (SymIsNonSymMinusTreated, SymEqualsStored); VTessTrace.IntegralChecks: dump tokens of both routes equal, integral lists vs stored values in order; API histories (VSession / VSessionTrace): direct build = converted integrator (without faces) and every integral list identical bit for bit at any point of any sequence of 3 (4) calls",
         "bit tokens compared as opaque strings", "DESIGN.md §5 C13"),
 "C16": ("VCell.SafetyBound model-checked; lattice replay: reported radius >= 2*exact distance to farthest point and >= distance to every neighbour with a face; every recorded termination validated by VCellTrace; pipeline F: radius vs the cell's own vertices on many-faced cells",
         "second clause: VCell.FarIrrelevant (no lattice point beyond the safety radius can cut the finished cell) model-checked; implementation: cells rebuilt with 1..3 generators added just outside the reported safety ball, recorded and validated by VTessTrace.FarChecks (measure, face set, radius unchanged)", "DESIGN.md §5 C16"),
 "C17": ("VNN (best-first traversal of every small r-tree shape over small point sets, 3^d shifted copies, all pop orders among equal keys: LowerBound, Sorted, NoDup, SelfFirst, PrefixOfAll, Complete) model-checked; candidate streams recorded through the hook verif::nn_sequence validated by VNNTrace with exact integer distances",
         "implementation side uses lattice inputs so that TLC can recompute distances exactly: coarse lattices with many equidistant points, fine lattices (256..2048 per axis: uniform and clustered points in general position), 10^3-point lattices (prefixes), scales 2^-50..2^30", "DESIGN.md §5 C17"),
 "C18": ("VCycle + VCellImpl (line-by-line transcription of SimpleCycle and compute_boundary) model-checked inside the cell machine: for every reachable cell and next plane, every order of the removed vertices (exhaustive up to 6/7) and rotations: never stuck, cycle = declarative boundary (ImplOK); CLIP cases replayed through verif::clip_cell under permutations; library-built cells (up to ~90 planes) re-clipped through verif::clip_existing under permutations",
         "orders above the exhaustive bound are sampled (cyclic shifts); ties with inexact snapping only required to give closed polytopes; MCVCycleInd: try_extend / init checked as an inductive step over EVERY well-formed cycle on 6 (7) planes x every triangle; library cells include cells with 300 successful clips and old faces revisited after every gap length around 2^8 clips", "DESIGN.md §5 C18"),
 "C10": ("VPred: TLC enumerates every 5-tuple of a small grid and checks transcription of in_sphere_test_exact = 4x4 determinant = geometric definition (circumcentre, orientation), translation invariance, and the first-order transport of co-spherical tuples; VCell.QueriesInDomain for every position the builder queries; vectors replayed into the real predicate (as is, swapped, scaled up to 2^49 and translated over [0,2^52), co-spherical +-1) and the grid map probed for range and monotonicity in release and dev profile",
         "exhaustive on the small grid; the 52-bit range is reached by homogeneity and translation invariance of the determinant", "DESIGN.md §5 C10"),
 "C11": ("the VPred vectors replayed into each buildable backend (ibig, dashu, malachite, num_bigint) must give the specification's sign; tessellations of degenerate lattice inputs (exact path consulted, incl. non-tie decisions) must be bitwise equal across backends",
         "rug backend cannot be built in the sandbox (needs m4/GMP)", "DESIGN.md §5 C11"),
 "C14": ("the harness is a downstream crate implementing CellIntegral/FaceIntegral (moments up to degree 2, plane probes); VDecomp (TLA+) fixes what both decompositions feed per plane (StreamsAgree, model-checked on every finished lattice cell) and VFacesTrace validates the recorded per-plane triangle counts, tetrahedron counts and the cell handed to init; moments of both decompositions compared with an independent integration of the polytope from its face polygons; design level: VMeasure.MeasureOK - on every finished lattice cell the projection-based decomposition (six signed tetrahedra per vertex) and the fan decomposition agree per plane in volume, first and second moments, signed area, face moments (exact rational identities evaluated by TLC modulo three primes)",
         "per-cell data of a type other than () cannot be implemented downstream (finding F10): alignment observed through the cell passed to init", "DESIGN.md §5 C14"),
 "C15": ("VFaces (transcription of with_faces / sort_face_vertices) model-checked on every finished lattice cell for several storage orders (FacesOK, CcwInward exact, OrderIndependent); recorded vertex triples and faces of real cells validated by VFacesTrace (re-extraction, incidence, simple cycles, shared planes, direction, Euler, accessors); geometric clauses, discard/with_faces identity and rejection in 1D/2D checked in the harness; API histories (VSession): with_faces / discard_faces round trips of every cell, cell set independent of the type-state, type-state transitions legal (VSessionTrace)",
         "geometric clauses numeric with tolerance; memory safety of the unchecked accessors not decided", "DESIGN.md §5 C15"),
 "C19": ("VHelpers: exact closed forms of every exported helper; TLC checks the defining equations on them for every small integer argument tuple and prints the tuples with exact results; replay under similarity embeddings and rescaled normals",
         "irrational results compared through exact squares; six similarity embeddings incl. scales 2^-30, 1e-9, 2^30 (absolute thresholds only show far from unit scale)", "DESIGN.md §5 C19"),
 "C20": ("VAux: definition of k-nearest (KnnOK) and brute-force exact minimal enclosing sphere (Exists, Unique, Contains model-checked over every small lattice point set); Space::knn results on quarter-lattice particle sets (cubic and non-cubic boxes, all k) validated by VAuxTrace with exact distances; Welzl = minimal sphere, Epos6 contains and is not smaller; Welzl's recursion transcribed in exact arithmetic (VAux.Welzl): for every order of the points it never reaches a degenerate boundary set and returns the minimal sphere",
         "VKnn: the ring search of Space::knn as a state machine (skip and termination bounds, any order within a ring) model-checked over every particle set of small non-cubic grids; knn conformance on lattice particle sets; sphere tolerance 1e-7 relative; scales 2^-30..2^30", "DESIGN.md §5 C20"),
}

checks = []
for pid in sorted(vvchecks.CHECKS):
    text, note, ref = T[pid]
    checks.append({
        "property_id": pid,
        "quick_cmd": "./vv check %s --tier quick" % pid,
        "thorough_cmd": "./vv check %s --tier thorough" % pid,
        "evidence_file": "/verif/evidence/%s.json" % pid,
        "replay_cmd_template": "./vv replay {path}",
        "engine": "vv",
        "level_claimed": {"category": "model_checking", "text": text, "design_ref": ref},
        "level_note": note,
        "technique": "explicit TLA+ specification model-checked with TLC + conformance binding (replay of TLC cases into the code / TLC validation of recorded traces)",
    })
na = [{"property_id": p, "reason": "check under construction in this round (specification module and harness binding not yet registered)"}
      for p in sorted(props) if p not in vvchecks.CHECKS]
man = {
 "version": 1,
 "setup_cmd": "cd /verif && ./vv setup",
 "hooks": {"guard": "meshless_voro_verif",
           "enable": "--cfg meshless_voro_verif via /verif/harness/.cargo/config.toml (the harness crate depends on /repo by path and is rebuilt from its working tree by every check)",
           "baseline_off_cmd": "cd /repo && cargo test --workspace --no-fail-fast --offline",
           "source_commits": ["de75022", "5f40ea1"], "add_only": True},
 "engines": [{"name": "vv", "path": "/verif/vv", "serves_properties": sorted(vvchecks.CHECKS),
              "kind_free_text": "python driver (vv, vvlib.py, vvchecks.py): TLC on /verif/spec/*.tla + Rust conformance harness /verif/harness (spec->impl replay, impl->spec trace validation)"}],
 "checks": checks,
 "not_applicable": na,
 "notes": "fix: commits in /repo: 9aa5d8b (F5), 8b19079 (F4), e99813a (F8), ae14f4d (F1), a175b66 (F9), 30592d2 (F6), 9097a8c (F7), eb81dbb (F2, frequent form), c277ceb (F13); open known findings F2 (residual), F11 (tight clusters), F14 (co-spherical shells) and the list of fixed ones in /verif/known_findings.json; seeded changes used to test sensitivity in /verif/seeded",
}
json.dump(man, open("/verif/MANIFEST.json", "w"), indent=1)
print("checks:", [c["property_id"] for c in checks], "n/a:", [x["property_id"] for x in na])
